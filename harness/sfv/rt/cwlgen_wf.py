"""C29: random CWL v1.2 workflows (1..6 steps) from container-free ExpressionTools and CommandLineTools.

A workflow is grown from a pool of typed values (workflow inputs and step outputs); each step template consumes values of
the right types and adds its outputs to the pool. Every generated document carries the list of features it uses.
Types: "int", "string", "boolean", "File", "int[]", "string[]", "int[][]", "int?", "rec" (record {n:int, s:string}).
"""
from __future__ import annotations

import json
import os
import random

REC_T = {"type": "record", "name": "rec_t", "fields": [{"name": "n", "type": "int"}, {"name": "s", "type": "string"}]}


def cwl_type(t: str):
    return {"int": "int", "string": "string", "boolean": "boolean", "File": "File", "int[]": "int[]", "string[]": "string[]",
            "int[][]": {"type": "array", "items": {"type": "array", "items": "int"}}, "int?": ["null", "int"],
            "int?[]": {"type": "array", "items": ["null", "int"]},
            "rec": REC_T, "Any": "Any"}[t]


def etool(ins: dict, outs: dict, expr: str) -> dict:
    return {"class": "ExpressionTool", "requirements": {"InlineJavascriptRequirement": {}},
            "inputs": {k: cwl_type(v) if isinstance(v, str) else v for k, v in ins.items()},
            "outputs": {k: cwl_type(v) if isinstance(v, str) else v for k, v in outs.items()}, "expression": expr}


TOOLS = {
    "inc": lambda: etool({"x": "int"}, {"o": "int"}, "$({'o': inputs.x + 1})"),
    "add": lambda: etool({"x": "int", "y": "int"}, {"o": "int"}, "$({'o': inputs.x * 100 + inputs.y})"),
    "fmt": lambda: etool({"x": "int", "s": "string"}, {"o": "string"}, "$({'o': inputs.s + '-' + inputs.x})"),
    "rng": lambda: etool({"x": "int"}, {"o": "int[]"}, "${var r = []; for (var i = 0; i < inputs.x % 4; i++) { r.push(inputs.x + i); } return {'o': r};}"),
    "sum": lambda: etool({"xs": "int[]"}, {"o": "int"}, "${var t = 0; for (var i = 0; i < inputs.xs.length; i++) { t += inputs.xs[i]; } return {'o': t};}"),
    "len2": lambda: etool({"xs": "int[][]"}, {"o": "int"}, "$({'o': inputs.xs.length})"),
    "odd_null": lambda: etool({"x": "int"}, {"o": "int?"}, "$({'o': inputs.x % 2 == 1 ? null : inputs.x})"),
    "addk_default": lambda: {"class": "ExpressionTool", "requirements": {"InlineJavascriptRequirement": {}},
                             "inputs": {"x": {"type": ["null", "int"], "default": 7}, "k": "int"}, "outputs": {"o": "int"},
                             "expression": "$({'o': inputs.k * 100 + inputs.x})"},
    "aid": lambda: etool({"xs": "int[]"}, {"o": "int[]"}, "$({'o': inputs.xs})"),
    "aid_opt": lambda: etool({"xs": "int?[]"}, {"o": "int?[]"}, "$({'o': inputs.xs})"),
    "iid": lambda: etool({"x": "int"}, {"o": "int"}, "$({'o': inputs.x})"),
    "sid": lambda: etool({"s": "string"}, {"o": "string"}, "$({'o': inputs.s})"),
    "mkrec": lambda: etool({"x": "int", "s": "string"}, {"o": "rec"}, "$({'o': {'n': inputs.x, 's': inputs.s}})"),
    "recn": lambda: etool({"r": "rec"}, {"o": "int"}, "$({'o': inputs.r.n + inputs.r.s.length})"),
    "echo": lambda: {"class": "CommandLineTool", "baseCommand": "echo", "inputs": {"s": {"type": "string", "inputBinding": {"position": 1}}},
                     "outputs": {"o": {"type": "stdout"}}, "stdout": "echo_out.txt"},
    "cat": lambda: {"class": "CommandLineTool", "baseCommand": "cat", "requirements": {"InlineJavascriptRequirement": {}},
                    "inputs": {"f": {"type": "File", "inputBinding": {"position": 1}}},
                    "outputs": {"o": {"type": "string", "outputBinding": {"glob": "cat_out.txt", "loadContents": True,
                                                                         "outputEval": "$(self[0].contents.trim())"}}},
                    "stdout": "cat_out.txt"},
    "wc": lambda: {"class": "CommandLineTool", "baseCommand": ["wc", "-c"], "inputs": {"f": {"type": "File"}}, "stdin": "$(inputs.f.path)",
                   "outputs": {"o": {"type": "File", "outputBinding": {"glob": "wc_out.txt"}}}, "stdout": "wc_out.txt"},
}


class WfGen:
    def __init__(self, rng: random.Random, allow: set, depth: int = 0):
        self.rng = rng
        self.allow = allow
        self.depth = depth
        self.inputs: dict = {}
        self.job: dict = {}
        self.steps: dict = {}
        self.pool: list = []     # (source, type, meta)
        self.feats: set = set()
        self.n = 0
        self.reqs: set = set()

    def fresh(self, p: str) -> str:
        self.n += 1
        return f"{p}{self.n}"

    def add_input(self, t: str, value, files_dir=None):
        nm = self.fresh("i")
        self.inputs[nm] = cwl_type(t)
        self.job[nm] = value
        self.pool.append((nm, t, {"value": value}))
        return nm

    def pick(self, t: str):
        c = [p for p in self.pool if p[1] == t]
        return self.rng.choice(c) if c else None

    def ensure(self, t: str, d: str):
        """a value of type t: from the pool, or a new workflow input"""
        p = self.pick(t)
        if p is not None and self.rng.random() < 0.75:
            return p
        rng = self.rng
        if t == "int":
            nm = self.add_input("int", rng.choice([0, 1, 2, 3, 5, 8, 13]))
        elif t == "string":
            nm = self.add_input("string", rng.choice(["a", "hello", "x y", "é", ""]))
        elif t == "boolean":
            nm = self.add_input("boolean", rng.random() < 0.5)
        elif t == "int[]":
            k = rng.choice([0, 1, 2, 3, 3, 4] if "empty-scatter" in self.allow else [1, 2, 3, 3, 4])
            nm = self.add_input("int[]", [rng.randint(0, 20) for _ in range(k)])
        elif t == "string[]":
            nm = self.add_input("string[]", [rng.choice(["p", "q", "r s", ""]) for _ in range(rng.randint(1, 3))])
        elif t == "File":
            fn = self.fresh("f") + ".txt"
            with open(os.path.join(d, fn), "w") as f:
                f.write(f"file {fn} {rng.randint(0, 999)}\n")
            nm = self.add_input("File", {"class": "File", "path": os.path.join(d, fn)})
        elif t == "rec":
            nm = self.add_input("rec", {"n": rng.randint(0, 9), "s": rng.choice(["u", "vw"])})
        else:
            return None
        return self.pool[-1]

    def out(self, step: str, name: str, t: str):
        self.pool.append((f"{step}/{name}", t, {}))

    # ---- step templates ------------------------------------------------------------------------
    def t_simple(self, d):
        rng = self.rng
        tool = rng.choice(["inc", "add", "fmt", "rng", "sum", "odd_null", "mkrec", "recn", "echo", "cat", "wc"])
        sig = {"inc": ({"x": "int"}, "int"), "add": ({"x": "int", "y": "int"}, "int"), "fmt": ({"x": "int", "s": "string"}, "string"),
               "rng": ({"x": "int"}, "int[]"), "sum": ({"xs": "int[]"}, "int"), "odd_null": ({"x": "int"}, "int?"),
               "mkrec": ({"x": "int", "s": "string"}, "rec"), "recn": ({"r": "rec"}, "int"), "echo": ({"s": "string"}, "File"),
               "cat": ({"f": "File"}, "string"), "wc": ({"f": "File"}, "File")}[tool]
        if tool in ("echo", "cat", "wc") and "clt" not in self.allow:
            tool, sig = "inc", ({"x": "int"}, "int")
        if tool in ("mkrec", "recn") and "record" not in self.allow:
            tool, sig = "inc", ({"x": "int"}, "int")
        st = self.fresh("s")
        ins = {}
        for k, t in sig[0].items():
            src = self.ensure(t, d)
            ins[k] = src[0]
        # valueFrom / default decorations
        if "valueFrom" in self.allow and tool in ("inc", "add") and rng.random() < 0.3:
            self.feats.add("valueFrom")
            self.reqs.add("StepInputExpressionRequirement")
            self.reqs.add("InlineJavascriptRequirement")
            ins["x"] = {"source": ins["x"], "valueFrom": rng.choice(["$(self + 10)", "$(self * 2)", "$(inputs.x + 3)"])}
        if "default" in self.allow and tool in ("inc", "fmt") and rng.random() < 0.25:
            self.feats.add("default")
            ins["x"] = {"default": rng.choice([7, 70])}
        self.feats.add("tool:" + tool)
        run = TOOLS[tool]()
        if tool == "wc":
            # one file name per step: two `wc` steps whose files both reach the output directory would otherwise collide there, and
            # the name chosen for the second file on a collision is the runner's own business (wc_out-1.txt vs wc_out.txt_2)
            run["stdout"] = run["outputs"]["o"]["outputBinding"]["glob"] = f"wc_out_{st}.txt"
        if tool == "echo":
            # same for `echo` steps (stdout-typed output): echo_out-1.txt vs echo_out.txt on a collision in the output directory
            run["stdout"] = f"echo_out_{st}.txt"
        self.steps[st] = {"run": run, "in": ins, "out": ["o"]}
        self.out(st, "o", sig[1])

    def t_scatter1(self, d):
        rng = self.rng
        xs = self.ensure("int[]", d)
        st = self.fresh("s")
        self.reqs.add("ScatterFeatureRequirement")
        self.feats.add("scatter:single")
        if xs[2].get("value") == []:
            self.feats.add("scatter:empty")
        tool = rng.choice(["inc", "rng", "odd_null"])
        self.steps[st] = {"run": TOOLS[tool](), "in": {"x": xs[0]}, "scatter": "x", "out": ["o"]}
        self.out(st, "o", {"inc": "int[]", "rng": "int[][]", "odd_null": "int?[]"}[tool])

    def t_scatter_default(self, d):
        """scatter a tool whose scattered input is optional with a default over an array holding nulls (a null followed by values)"""
        rng = self.rng
        vals = [rng.choice([None, None, rng.randint(0, 20)]) for _ in range(rng.randint(2, 6))]
        if None in vals and vals[-1] is None:
            vals.append(rng.randint(0, 20))
        self.add_input("int?[]", vals)
        xs = self.pool[-1]
        k = self.ensure("int", d)
        st = self.fresh("s")
        self.reqs.add("ScatterFeatureRequirement")
        self.feats.add("scatter:default-over-nulls")
        self.steps[st] = {"run": TOOLS["addk_default"](), "in": {"x": xs[0], "k": k[0]}, "scatter": "x", "out": ["o"]}
        self.out(st, "o", "int[]")

    def t_scatter2(self, d):
        rng = self.rng
        method = rng.choice([m for m in ["dotproduct", "flat_crossproduct", "nested_crossproduct"] if m in self.allow] or ["dotproduct"])
        a = self.ensure("int[]", d)
        b = self.ensure("int[]", d)
        if method == "nested_crossproduct" and "nested-empty" not in self.allow:
            # known disagreement (CWLEmptyScatterConditionalStep): keep the inputs non-empty and literal
            for _ in range(2):
                self.add_input("int[]", [rng.randint(0, 20) for _ in range(rng.randint(1, 3))])
            a, b = self.pool[-2], self.pool[-1]
        if method == "dotproduct":
            # same length needed: scatter the same source twice or build an equal-length input
            va = a[2].get("value")
            if va is not None:
                nm = self.add_input("int[]", [rng.randint(0, 9) for _ in va])
                b = self.pool[-1]
            else:
                b = a
        st = self.fresh("s")
        self.reqs.add("ScatterFeatureRequirement")
        self.feats.add("scatter:" + method)
        va, vb = a[2].get("value"), b[2].get("value")
        if va == [] or vb == []:
            self.feats.add("scatter:empty")
            if method == "nested_crossproduct" and (va is None or vb is None or (va == []) != (vb == [])):
                self.feats.add("nested_crossproduct-one-empty")
            if method == "nested_crossproduct" and va == [] and vb == []:
                self.feats.add("nested_crossproduct-both-empty")
        if va is None or vb is None:
            self.feats.add("scatter:computed-array")
        self.steps[st] = {"run": TOOLS["add"](), "in": {"x": a[0], "y": b[0]}, "scatter": ["x", "y"], "scatterMethod": method, "out": ["o"]}
        self.out(st, "o", "int[][]" if method == "nested_crossproduct" else "int[]")
        if method == "flat_crossproduct":
            self.pool[-1] = (self.pool[-1][0], "int[]", {"cross": True})

    def t_when(self, d):
        rng = self.rng
        x = self.ensure("int", d)
        st = self.fresh("s")
        self.reqs.add("InlineJavascriptRequirement")
        self.feats.add("when")
        cond = rng.choice(["$(inputs.x % 2 == 0)", "$(inputs.x > 2)", "$(true)", "$(false)"])
        self.steps[st] = {"run": TOOLS["inc"](), "in": {"x": x[0]}, "when": cond, "out": ["o"]}
        self.out(st, "o", "int?")

    def t_pick(self, d):
        rng = self.rng
        mode = rng.choice(["first_non_null", "the_only_non_null", "all_non_null"])
        # make sure there are optional values around
        while len([p for p in self.pool if p[1] == "int?"]) < 2:
            self.t_when(d)
        srcs = rng.sample([p for p in self.pool if p[1] == "int?"], 2)
        if rng.random() < 0.4:
            srcs.append(self.ensure("int", d))
            rng.shuffle(srcs)
        st = self.fresh("s")
        self.reqs.add("MultipleInputFeatureRequirement")
        self.feats.add("pickValue:" + mode)
        if mode == "all_non_null":
            self.steps[st] = {"run": TOOLS["aid"](), "in": {"xs": {"source": [s[0] for s in srcs], "pickValue": mode}}, "out": ["o"]}
            self.out(st, "o", "int[]")
        else:
            self.steps[st] = {"run": TOOLS["iid"](), "in": {"x": {"source": [s[0] for s in srcs], "pickValue": mode}}, "out": ["o"]}
            self.out(st, "o", "int")

    def _distinct(self, t, k, d):
        """k pairwise different sources of type t"""
        srcs = []
        for _ in range(k):
            for _ in range(6):
                s = self.ensure(t, d)
                if s[0] not in [x[0] for x in srcs]:
                    break
            else:
                if t == "int":
                    self.add_input("int", self.rng.choice([0, 1, 2, 3, 5, 8, 13]))
                else:
                    self.add_input("int[]", [self.rng.randint(0, 20) for _ in range(self.rng.randint(1, 3))])
                s = self.pool[-1]
            srcs.append(s)
        return srcs

    def t_merge(self, d):
        rng = self.rng
        mode = rng.choice(["merge_nested", "merge_flattened"])
        st = self.fresh("s")
        self.reqs.add("MultipleInputFeatureRequirement")
        self.feats.add("linkMerge:" + mode)
        if mode == "merge_flattened":
            srcs = self._distinct("int[]", rng.randint(2, 3), d)
            if "merge-cross" not in self.allow:
                srcs = [s for s in srcs if not s[2].get("cross")]
                while len(srcs) < 2:
                    self.add_input("int[]", [rng.randint(0, 20) for _ in range(rng.randint(1, 3))])
                    srcs.append(self.pool[-1])
            if any(s[2].get("cross") for s in srcs):
                self.feats.add("merge_flattened-of-crossproduct")
            if "merge-duplicate" in self.allow and rng.random() < 0.3:
                srcs.append(srcs[0])
            if len({s[0] for s in srcs}) < len(srcs):
                self.feats.add("merge-duplicate-source")
            self.steps[st] = {"run": TOOLS["aid"](), "in": {"xs": {"source": [s[0] for s in srcs], "linkMerge": mode}}, "out": ["o"]}
            self.out(st, "o", "int[]")
        else:
            srcs = self._distinct("int", rng.randint(2, 3), d)
            if "merge-duplicate" in self.allow and rng.random() < 0.3:
                srcs.append(srcs[0])
            if len({s[0] for s in srcs}) < len(srcs):
                self.feats.add("merge-duplicate-source")
            self.steps[st] = {"run": TOOLS["aid"](), "in": {"xs": {"source": [s[0] for s in srcs], "linkMerge": mode}}, "out": ["o"]}
            self.out(st, "o", "int[]")

    def t_sub(self, d):
        rng = self.rng
        x = self.ensure("int", d)
        sub = WfGen(rng, self.allow - {"sub", "clt"}, self.depth + 1)
        sub.inputs["x"] = "int"
        sub.pool.append(("x", "int", {}))
        for _ in range(rng.randint(1, 2)):
            rng.choice([sub.t_simple, sub.t_when if "when" in self.allow else sub.t_simple, sub.t_scatter1 if "scatter" in self.allow else sub.t_simple])(d)
        # subworkflow inputs created on the fly become inputs with defaults
        subdoc = sub.document(d, as_sub=True)
        st = self.fresh("s")
        self.reqs.add("SubworkflowFeatureRequirement")
        self.feats.add("subworkflow")
        self.feats |= sub.feats
        outs = list(subdoc["outputs"].keys())
        self.steps[st] = {"run": subdoc, "in": {"x": x[0]}, "out": outs}
        for o in outs:
            self.out(st, o, sub._out_types[o])

    def document(self, d, as_sub=False):
        doc = {"class": "Workflow", "inputs": {}, "outputs": {}, "steps": self.steps}
        if not as_sub:
            doc = {"cwlVersion": "v1.2", **doc}
        for k, t in self.inputs.items():
            if as_sub and k in self.job:
                doc["inputs"][k] = {"type": t, "default": self.job[k]}
            else:
                doc["inputs"][k] = {"type": t} if isinstance(t, dict) else t
        self._out_types = {}
        for src, t, _ in self.pool:
            if "/" in src:
                nm = "o_" + src.replace("/", "_")
                doc["outputs"][nm] = {"type": cwl_type(t), "outputSource": src}
                self._out_types[nm] = t
        reqs = set(self.reqs)
        if reqs:
            doc["requirements"] = {r: {} for r in sorted(reqs)}
        return doc


def gen_workflow(rng: random.Random, d: str, allow: set, n_steps=None, force=None):
    os.makedirs(d, exist_ok=True)
    g = WfGen(rng, allow)
    n = n_steps or rng.randint(1, 6)
    templates = [("simple", g.t_simple)] * 3
    if "scatter" in allow:
        templates += [("scatter1", g.t_scatter1), ("scatter2", g.t_scatter2), ("scatter2", g.t_scatter2),
                      ("scatter_default", g.t_scatter_default)]
    if "when" in allow:
        templates += [("when", g.t_when)]
    if "pickValue" in allow:
        templates += [("pick", g.t_pick)]
    if "linkMerge" in allow:
        templates += [("merge", g.t_merge)]
    if "sub" in allow:
        templates += [("sub", g.t_sub)]
    byname = dict(templates)
    for nm in (force or []):
        byname[nm](d)
    while len(g.steps) < n:
        rng.choice(templates)[1](d)
    doc = g.document(d)
    with open(os.path.join(d, "wf.cwl"), "w") as f:
        json.dump(doc, f, indent=1)
    with open(os.path.join(d, "job.json"), "w") as f:
        json.dump(g.job, f, indent=1)
    return {"doc": doc, "job": g.job, "features": sorted(g.feats), "steps": len(g.steps)}


SAFE_FEATURES = {"scatter", "dotproduct", "flat_crossproduct", "nested_crossproduct", "empty-scatter", "when", "pickValue", "linkMerge",
                 "sub", "valueFrom", "default", "clt", "record"}
ALL_FEATURES = {"nested-empty", "merge-cross", "scatter", "dotproduct", "flat_crossproduct", "nested_crossproduct", "empty-scatter", "when", "pickValue", "linkMerge",
                "merge-duplicate", "sub", "valueFrom", "default", "clt", "record"}
