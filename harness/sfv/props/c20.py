"""C20 — provenance graph operations keep the graph consistent (streamflow/recovery/utils.py)."""
from __future__ import annotations

import random

from streamflow.core.workflow import Token
from streamflow.recovery import utils as ru

from sfv.framework import Ctx, Property

DRIVER = "Drivers/C20.lean"


# ------------------------------------------------------------------------------------------------
# independent reference graph: a node set and an edge set, nothing else
# ------------------------------------------------------------------------------------------------
class RefGraph:
    def __init__(self):
        self.nodes: set[int] = set()
        self.edges: set[tuple[int, int]] = set()

    def add(self, u, v=None):
        self.nodes.add(u)
        if v is not None:
            self.nodes.add(v)
            self.edges.add((u, v))

    def closure(self, targets, prune):
        """least set containing the existing targets and (when pruning) every node that has a successor and
        all of whose successors are in the set"""
        rem = {t for t in targets if t in self.nodes}
        if prune:
            changed = True
            while changed:
                changed = False
                for p in self.nodes - rem:
                    succ = {b for (a, b) in self.edges if a == p}
                    if succ and succ <= rem:
                        rem.add(p)
                        changed = True
        return rem

    def remove(self, targets, prune):
        rem = self.closure(targets, prune)
        self.nodes -= rem
        self.edges = {(a, b) for (a, b) in self.edges if a not in rem and b not in rem}
        return rem

    def replace(self, old, new):
        if old not in self.nodes:
            return "ok"
        if new in self.nodes:
            return "ValueError"
        r = lambda x: new if x == old else x  # noqa: E731
        self.nodes = {r(x) for x in self.nodes}
        self.edges = {(r(a), r(b)) for (a, b) in self.edges}
        return "ok"

    def promote(self, node):
        if node not in self.nodes:
            return set()
        preds = {a for (a, b) in self.edges if b == node}
        self.edges = {(a, b) for (a, b) in self.edges if b != node}
        dead = {p for p in preds if not any(a == p for (a, _) in self.edges)}
        return self.remove(dead, True)

    def dump(self):
        keys = sorted(self.nodes)
        succ = {k: sorted(b for (a, b) in self.edges if a == k) for k in keys}
        pred = {k: sorted(a for (a, b) in self.edges if b == k) for k in keys}
        return keys, succ, pred


def _sl(l):
    return ",".join(map(str, l)) if l else "-"


def _sm(keys, m):
    return ";".join(f"{k}:{_sl(sorted(m[k]))}" for k in sorted(keys)) if keys else "-"


def dump_real(g) -> str:
    sk, pk = list(g._successors.keys()), list(g._predecessors.keys())
    return f"{_sl(sorted(sk))}|{_sl(sorted(pk))}|{_sm(sk, g._successors)}|{_sm(pk, g._predecessors)}"


def dump_ref(r: RefGraph) -> str:
    keys, succ, pred = r.dump()
    return f"{_sl(keys)}|{_sl(keys)}|{_sm(keys, succ)}|{_sm(keys, pred)}"


def op_line(op) -> str:
    k = op[0]
    if k == "add":
        return f"add {op[1]} {'-' if op[2] is None else op[2]}"
    if k == "rm":
        return "rm " + ("1" if op[2] else "0") + "".join(f" {n}" for n in op[1])
    if k == "rep":
        return f"rep {op[1]} {op[2]}"
    if k == "prom":
        return f"prom {op[1]}"
    raise ValueError(op)


def apply_real(g, op) -> str:
    """run one op on the real class; returns the canonical return value"""
    k = op[0]
    try:
        if k == "add":
            g.add(op[1], op[2])
            return "-"
        if k == "rm":
            r = g.remove_nodes(list(op[1]), prune_dead_end=op[2])
            if len(set(r)) != len(r):
                return "DUP:" + _sl(r)
            return _sl(sorted(r))
        if k == "rep":
            try:
                g.replace(op[1], op[2])
                return "ok"
            except ValueError:
                return "ValueError"
        if k == "prom":
            r = g.promote_to_source(op[1])
            if len(set(r)) != len(r):
                return "DUP:" + _sl(r)
            return _sl(sorted(r))
    except Exception as e:  # noqa: BLE001
        return "EXC:" + type(e).__name__
    raise ValueError(op)


def _sorted_ret(ret: str) -> str:
    if ret and (ret[0].isdigit()):
        return _sl(sorted(int(x) for x in ret.split(",")))
    return ret


def apply_ref(r: RefGraph, op) -> str:
    k = op[0]
    if k == "add":
        r.add(op[1], op[2])
        return "-"
    if k == "rm":
        before = set(r.nodes)
        rem = r.remove(op[1], op[2])
        del before
        return _sl(sorted(rem))
    if k == "rep":
        return r.replace(op[1], op[2])
    if k == "prom":
        return _sl(sorted(r.promote(op[1])))
    raise ValueError(op)


def mirror_ok(g) -> str | None:
    s, p = g._successors, g._predecessors
    if set(s.keys()) != set(p.keys()):
        return "key sets differ"
    for u, vs in s.items():
        for v in vs:
            if v not in p or u not in p[v]:
                return f"edge {u}->{v} missing in _predecessors"
    for v, us in p.items():
        for u in us:
            if u not in s or v not in s[u]:
                return f"edge {u}->{v} missing in _successors"
    return None


def gen_history(rng: random.Random, nmax: int, nops: int, dag: bool):
    """a random op sequence over node ids 0..nmax-1 (+ fresh ids for replace)"""
    ops = []
    live = set()
    fresh = 100
    for _ in range(nops):
        x = rng.random()
        if x < 0.5 or len(live) < 2:
            u = rng.randrange(nmax)
            if rng.random() < 0.12:
                v = None
            else:
                v = rng.randrange(nmax)
                if dag:
                    if u == v:
                        v = None
                    elif u > v:
                        u, v = v, u
            ops.append(("add", u, v))
            live.add(u)
            if v is not None:
                live.add(v)
        elif x < 0.72:
            k = rng.choice([1, 1, 1, 2, 3, 0])
            pool = sorted(live) + [rng.randrange(nmax + 3)]
            ns = [rng.choice(pool) for _ in range(k)]
            prune = rng.random() < 0.65
            ops.append(("rm", ns, prune))
        elif x < 0.86:
            old = rng.choice(sorted(live) + [nmax + 5])
            r = rng.random()
            if r < 0.7:
                new = fresh
                fresh += 1
            elif r < 0.85:
                new = rng.choice(sorted(live))
            else:
                new = old
            ops.append(("rep", old, new))
            if new >= 100:
                live.add(new)
        else:
            ops.append(("prom", rng.choice(sorted(live) + [nmax + 7])))
    return ops


CORPUS = [
    # pruning chain, self-loop, early push (a parent whose other child waits on the stack)
    [("add", 0, 1), ("add", 1, 2), ("rm", [2], True)],
    [("add", 0, 1), ("add", 0, 2), ("rm", [1], True), ("rm", [2], True)],
    [("add", 0, 1), ("add", 0, 2), ("rm", [1, 2], True)],
    [("add", 0, 1), ("add", 0, 2), ("rm", [2, 1], True)],
    [("add", 2, 2), ("add", 1, 2), ("rm", [2], True)],
    [("add", 1, 1), ("add", 1, 2), ("rm", [2], True)],
    [("add", 0, 1), ("add", 1, 0), ("add", 1, 2), ("rm", [2], True)],
    [("add", 0, 1), ("add", 1, 0), ("prom", 0)],
    [("add", 0, 0), ("add", 0, 1), ("add", 2, 0), ("rep", 0, 10)],
    [("add", 0, 1), ("rep", 0, 1), ("rep", 5, 1), ("rep", 0, 0)],
    [("add", 0, 3), ("add", 1, 3), ("add", 1, 4), ("add", 2, 0), ("prom", 3)],
    [("add", 0, 1), ("add", 1, 2), ("add", 1, 3), ("rm", [3, 3, 9, 2], False)],
    [("add", 10, 11), ("add", 11, 10), ("add", 9, 10), ("rm", [11, 10], True)],
]


# ------------------------------------------------------------------------------------------------
# GraphMapper: port_tokens / token_instances / token_availability must stay in step with the token graph
# ------------------------------------------------------------------------------------------------
def _mk_token(i, tag):
    t = Token(value=i, tag=tag)
    t.persistent_id = i
    return t


def mapper_consistent(m) -> str | None:
    nodes = set(m.dag_tokens._successors.keys())
    inst, av = set(m.token_instances.keys()), set(m.token_availability.keys())
    pt = set().union(*m.port_tokens.values()) if m.port_tokens else set()
    if not (nodes == inst == av == pt):
        return f"graph nodes {sorted(nodes)}, token_instances {sorted(inst)}, token_availability {sorted(av)}, port_tokens {sorted(pt)}"
    for p, ts in m.port_tokens.items():
        if not ts:
            return f"port {p} is left with no token"
        if p not in m.dcg_ports._successors:
            return f"port {p} has tokens but is not in the port graph"
    for i, t in m.token_instances.items():
        if t.persistent_id != i:
            return f"token_instances[{i}] holds the token {t.persistent_id}"
    return mirror_ok(m.dag_tokens) or mirror_ok(m.dcg_ports)


def gen_mapper_case(rng: random.Random):
    """a random token DAG over 1..4 ports (tokens of a port have distinct tags), then move_token_to_root / replace_token"""
    n = rng.randint(2, 10)
    ports = [f"p{i}" for i in range(rng.randint(1, 4))]
    used, toks = set(), {}
    for i in range(1, n + 1):
        while True:
            p, tag = rng.choice(ports), ".".join(str(rng.randint(0, 12)) for _ in range(rng.randint(1, 2)))
            if (p, tag) not in used:
                used.add((p, tag))
                break
        toks[i] = (p, tag, rng.random() < 0.5)
    edges = [(i, j) for i in range(1, n + 1) for j in range(i + 1, n + 1) if rng.random() < 0.35]
    steps = [(rng.random(), rng.random(), rng.random() < 0.5, rng.random() < 0.5) for _ in range(rng.randint(1, 7))]
    return {"tokens": toks, "edges": edges, "steps": steps}


def _pn(name):
    return int(name[1:])


def mdump_real(m, tagcode) -> str:
    """the whole GraphMapper, as `mdump` of Drivers/C20.lean prints the Lean model of it"""
    def gd(g, f):
        sk, pk = [f(k) for k in g._successors], [f(k) for k in g._predecessors]
        succ = {f(k): [f(x) for x in v] for k, v in g._successors.items()}
        pred = {f(k): [f(x) for x in v] for k, v in g._predecessors.items()}
        return f"{_sl(sorted(sk))}|{_sl(sorted(pk))}|{_sm(sk, succ)}|{_sm(pk, pred)}"

    def dd(d, f):
        return ";".join(f"{k}:{f(v)}" for k, v in sorted(d.items())) if d else "-"

    pt = {_pn(k): v for k, v in m.port_tokens.items()}
    ids = {_pn(k): v for k, v in m.port_name_ids.items()}
    flat = [t for v in m.port_tokens.values() for t in v]
    consistent = mapper_consistent(m) is None and len(flat) == len(set(flat))
    return "#".join([gd(m.dag_tokens, int), gd(m.dcg_ports, _pn), dd(pt, lambda v: _sl(sorted(v))),
                     dd(m.token_availability, lambda v: "1" if v else "0"), dd(m.token_instances, lambda t: str(tagcode[t.tag])),
                     dd(ids, lambda v: _sl(sorted(v))), "consistent" if consistent else "INCONSISTENT"])


def gen_mapper_adds(rng: random.Random):
    """`add` sequences in which tokens of a port DO share tags (so `_update_token` meets equal tokens: keep / replace + move to
    root), followed by move_token_to_root / replace_token"""
    n = rng.randint(3, 10)
    nports, ntags = rng.randint(1, 4), rng.randint(1, 3)
    toks = {i: (f"p{rng.randrange(nports)}", str(rng.randrange(ntags)), rng.random() < 0.5) for i in range(1, n + 1)}
    ops = []
    for _ in range(rng.randint(2, 12)):
        a = rng.randint(1, n)
        if rng.random() < 0.2:
            ops.append(("madd", a, None))
        else:
            b = rng.randint(1, n)
            if b != a:
                ops.append(("madd", min(a, b), max(a, b)) if rng.random() < 0.85 else ("madd", a, b))
    for _ in range(rng.randint(0, 4)):
        ops.append(("mroot", rng.random()) if rng.random() < 0.5 else ("mrep", rng.random(), str(rng.randrange(ntags)), rng.random() < 0.5))
    return {"tokens": toks, "ops": ops}


class C20(Property):
    pid = "C20"
    title = "Provenance graph operations keep the graph consistent"
    lean_targets = ["SFV.Props.C20", "SFV.Model.Proto"]
    props_files = ["SFV/Props/C20.lean"]
    drivers = [DRIVER]
    translators = []
    rule = ("random operation histories (add with/without target, remove_nodes with 0..3 targets incl. absent and repeated ones, "
            "with and without prune_dead_end, replace incl. existing/absent/same node, promote_to_source) on graphs of <= 12 nodes, "
            "half of them acyclic (edges low->high) and half with cycles and self-loops, plus a boundary corpus; and GraphMapper "
            "histories (a random token DAG over 1..4 ports, then move_token_to_root / replace_token) whose dag_tokens is compared "
            "in the same way and whose port_tokens / token_instances / token_availability must stay in step with it. After every "
            "operation the real DirectedAcyclicGraph's two maps and return value are compared with (1) an independent reference "
            "graph (node set + edge set + least-fixpoint closure) = the property monitor, (2) the Lean model (driver). Whole-mapper "
            "histories: `add` sequences in which tokens of a port share tags (keep / replace + move to root branches of "
            "_update_token), then move_token_to_root / replace_token, exceptions included; after every operation both graphs and "
            "every dictionary of the real GraphMapper are compared with the Lean model of it, and move_token_to_root / replace_token "
            "/ a single fresh add on a consistent mapper must leave it consistent. "
            "Non-trivial = distinct history containing a removal/replace/promote on a graph with at least one edge.")
    trusted_base = [
        "modelled, not verified: Python set/dict semantics (add/discard/remove/del, iteration over a snapshot); set iteration "
        "order is left arbitrary in the model (lists in any order) and never observed by the theorems",
        "DirectedGraph nodes are modelled as natural numbers (the code only uses hashing and equality)",
        "GraphMapper: dictionaries are association lists, port names numbers, a token instance is the value get_equal_token compares "
        "(tag; the JobToken branch, which compares job names, is the same comparison on another attribute and is not exercised)",
    ]
    technique = ("Lean 4 theorems over an executable model of the two adjacency maps (well-founded stack algorithm, loop invariant "
                 "against a least-fixpoint closure spec) + differential correspondence on random operation histories")
    level_text = ("grade A: unbounded theorems — representation invariant after every operation sequence (mirror, same keys, closed, "
                  "duplicate free), remove_nodes without pruning removes exactly the targets, with pruning exactly the least closure "
                  "(order independent, each node once, no dead end left), replace renames edges exactly (ValueError iff), "
                  "promote_to_source cuts incoming edges and removes exactly the closure of dead parents; termination of the stack "
                  "loop checked by Lean; GraphMapper (both graphs and all dictionaries) in the model: move_token_to_root, replace_token "
                  "and the add of a single new token keep it consistent (mapper_consistent, mapper_add_single_consistent); model "
                  "compared with the real classes on random histories (DAG and cyclic; whole mapper incl. add with equal tokens)")
    level_note = ("Lean kernel, axioms within {propext, Classical.choice, Quot.sound}; hand-written model tied to the code by the "
                  "correspondence check only (no translator: the code is loops over sets, not a table)")
    assumptions = ["node objects behave like values with equality (ints / strings); single-threaded use (no await inside the methods)"]
    quick_budget_s = 480          # generous: the machine may be heavily loaded
    min_nontrivial = 50

    # -- one history on real code, reference, and (queued) model ---------------------------------
    def _run_history(self, ctx: Ctx, ops, lines, expect, meta, bucket):
        g = ru.DirectedAcyclicGraph("g")
        ref = RefGraph()
        lines.append("new")
        expect.append("ok")
        meta.append((ops, -1))
        nontriv = False
        for i, op in enumerate(ops):
            had_edges = bool(ref.edges)
            ret = apply_real(g, op)
            rret = apply_ref(ref, op)
            real = f"{ret}|{dump_real(g)}"
            want = f"{rret}|{dump_ref(ref)}"
            # the property speaks about the SET of removed nodes: returned lists are compared sorted
            real_set = f"{_sorted_ret(ret)}|{dump_real(g)}"
            ctx.count("op:" + op[0] + (":prune" if op[0] == "rm" and op[2] else ""))
            if op[0] != "add" and had_edges:
                nontriv = True
            m = mirror_ok(g)
            if m is not None:
                ctx.fail("graph:mirror-broken", f"after {op}: {m}; maps: {dump_real(g)}", {"ops": ops[: i + 1]})
                break
            if ret.startswith("EXC:") or ret.startswith("DUP:"):
                ctx.fail("graph:" + ("raises" if ret.startswith("EXC") else "duplicate-in-result") + ":" + op[0],
                         f"{op} -> {ret} after {ops[:i]}", {"ops": ops[: i + 1]})
                break
            if real_set != want:
                ctx.fail("graph:" + op[0] + (":prune" if op[0] == "rm" and op[2] else "") + ":differs-from-plain-graph",
                         f"after {ops[: i + 1]}: code {real}, reference graph {want}", {"ops": ops[: i + 1]})
                break
            lines.append(op_line(op))
            expect.append(real)
            meta.append((ops, i))
        if g._successors:
            lines.append("srcsnk")
            expect.append(f"{_sl(sorted(g.get_sources()))}|{_sl(sorted(g.get_sinks()))}")
            meta.append((ops, len(ops)))
        ctx.case({"ops": [list(o) for o in ops[:12]], "final": dump_real(g)},
                 ("h", repr(ops)) if nontriv else None, bucket)

    def _run_mapper(self, ctx: Ctx, case, lines, expect, meta):
        m, ref = ru.GraphMapper(None), RefGraph()
        toks = {int(i): v for i, v in case["tokens"].items()}
        info = {i: ru.ProvenanceToken(_mk_token(i, tag), av, 100 + int(p[1:]), p) for i, (p, tag, av) in toks.items()}
        ops = []          # the same history as plain graph operations (for the Lean model of dag_tokens)
        lines.append("new")
        expect.append("ok")
        meta.append((ops, -1))

        def sync(op, what):
            ops.append(op)
            ctx.count("mapper:" + what)
            bad = mapper_consistent(m)
            if bad:
                ctx.fail("mapper:inconsistent:" + what, f"after {what} {op}: {bad}", {"mapper": case})
                return False
            real = dump_real(m.dag_tokens)
            if real != dump_ref(ref):
                ctx.fail("mapper:token-graph-differs:" + what, f"after {what} {op}: dag_tokens {real}, plain graph {dump_ref(ref)}", {"mapper": case})
                return False
            lines.append(op_line(op))
            expect.append("*|" + real)
            meta.append((ops, len(ops) - 1))
            return True

        try:
            ok = True
            with_succ = {i for i, _ in case["edges"]}
            for i in sorted(toks):
                if not ok:
                    break
                if i not in with_succ:
                    m.add(info[i])
                    ref.add(i)
                    ok = sync(("add", i, None), "add")
                for a, b in case["edges"]:
                    if a == i and ok:
                        m.add(info[a], info[b])
                        ref.add(a, b)
                        ok = sync(("add", a, b), "add")
            nid = max(toks) + 1
            for r1, r2, av, then_root in case["steps"]:
                live = sorted(m.token_instances)
                if not ok or not live:
                    break
                t = live[int(r2 * len(live))]
                if r1 < 0.5:
                    m.move_token_to_root(t)
                    ref.promote(t)
                    ok = sync(("prom", t), "move_token_to_root")
                else:
                    port = next(pp for pp, ts in m.port_tokens.items() if t in ts)
                    new = _mk_token(nid, m.token_instances[t].tag)
                    nid += 1
                    m.replace_token(port, new, av)
                    ref.replace(t, new.persistent_id)
                    ok = sync(("rep", t, new.persistent_id), "replace_token")
                    if ok and then_root:
                        m.move_token_to_root(new.persistent_id)
                        ref.promote(new.persistent_id)
                        ok = sync(("prom", new.persistent_id), "move_token_to_root")
        except (ru.FailureHandlingException, ValueError, KeyError) as e:
            # these histories never ask for anything the mapper may refuse (tokens of a port have distinct tags, a replacement
            # carries the tag of the token it replaces)
            ctx.fail("mapper:raises", f"after {ops}: {type(e).__name__}: {e}", {"mapper": case})
        ctx.case({"mapper": {"tokens": len(toks), "edges": len(case["edges"]), "ops": [list(o) for o in ops[-6:]]}},
                 ("mapper", repr(case)), "mapper")

    def _run_mapper_adds(self, ctx: Ctx, case, lines, expect, meta):
        """the whole GraphMapper (both graphs and every dictionary) against its Lean model, `add` with equal tokens included"""
        m = ru.GraphMapper(None)
        toks = {int(i): tuple(v) for i, v in case["tokens"].items()}
        tagcode = {str(k): k for k in range(10)}
        info = {i: ru.ProvenanceToken(_mk_token(i, tag), av, 100 + _pn(p), p) for i, (p, tag, av) in toks.items()}
        done = []
        lines.append("mnew")
        expect.append("ok")
        meta.append((done, -1, case))

        def inf(i):
            p, tag, av = toks[i]
            return f"{_pn(p)} {100 + _pn(p)} {i} {tagcode[tag]} {int(av)}"

        nid = max(toks) + 1
        saw_equal = False
        was_consistent = True
        for op in case["ops"]:
            op = tuple(op)
            single_fresh = False
            try:
                if op[0] == "madd":
                    # the hypotheses of `mapper_add_single_consistent`
                    single_fresh = (op[2] is None and op[1] not in m.token_instances
                                    and m.get_equal_token(toks[op[1]][0], info[op[1]].instance) is None)
                    line = f"madd {inf(op[1])}" + ("" if op[2] is None else f" {inf(op[2])}")
                    for i in op[1:]:
                        if i is not None and m.get_equal_token(toks[i][0], info[i].instance) not in (None, i):
                            saw_equal = True
                    m.add(info[op[1]], None if op[2] is None else info[op[2]])
                elif op[0] == "mroot":
                    live = sorted(m.token_instances)
                    if not live:
                        continue
                    t = live[int(op[1] * len(live))]
                    line = f"mroot {t}"
                    m.move_token_to_root(t)
                else:
                    ports = sorted(m.port_tokens)
                    if not ports:
                        continue
                    port = ports[int(op[1] * len(ports))]
                    line = f"mrep {_pn(port)} {nid} {tagcode[op[2]]} {int(op[3])}"
                    new = _mk_token(nid, op[2])
                    nid += 1
                    m.replace_token(port, new, op[3])
                res = mdump_real(m, tagcode)
            except (ru.FailureHandlingException, ValueError, KeyError) as e:
                res = "EXC"
                ctx.count("mapper-model:raises:" + type(e).__name__)
            done.append(line)
            lines.append(line)
            expect.append(res)
            meta.append((done, len(done) - 1, case))
            ctx.count("mapper-model:" + op[0])
            if res == "EXC":
                break
            if res.endswith("INCONSISTENT"):
                # `add` with an equal, unavailable token can leave a graph node without dictionary entries (design_notes/C20.md,
                # reproduced by the Lean model: `add_can_break_consistency`); the other two operations must keep a consistent mapper consistent
                if was_consistent:
                    ctx.count("mapper-model:consistency-lost-by-" + op[0])
                    if op[0] != "madd" or single_fresh:
                        ctx.fail("mapper:inconsistent:" + op[0], f"after {done}: {res}", {"mapper_adds": case})
            if single_fresh and was_consistent:
                ctx.count("mapper-model:add-single-fresh-on-consistent")
            was_consistent = not res.endswith("INCONSISTENT")
        ctx.case({"mapper_adds": {"tokens": len(toks), "ops": done[-6:]}}, ("mapper-adds", repr(case)) if saw_equal else None, "mapper-model")

    def explore(self, ctx: Ctx) -> None:
        rng = ctx.rng
        lines, expect, meta = [], [], []
        for _ in range(400 if ctx.tier == "quick" else 4000):
            self._run_mapper_adds(ctx, gen_mapper_adds(rng), lines, expect, meta)
        for _ in range(400 if ctx.tier == "quick" else 4000):
            self._run_mapper(ctx, gen_mapper_case(rng), lines, expect, meta)
        for ops in CORPUS:
            self._run_history(ctx, ops, lines, expect, meta, "corpus")
            ctx.corpus_replayed += 1
        n = 1500 if ctx.tier == "quick" else 20000
        if ctx.mode == "search":
            n *= 3
        for k in range(n):
            if ctx.out_of_time():
                ctx.extra["histories_run"] = k
                if k < 300:
                    ctx.extra["incomplete"] = True
                break
            dag = k % 2 == 0
            nmax = rng.choice([2, 3, 4, 5, 6, 8, 12])
            nops = rng.randint(3, 8 if nmax <= 3 else 30)
            ops = gen_history(rng, nmax, nops, dag)
            self._run_history(ctx, ops, lines, expect, meta, "dag" if dag else "cyclic")
        # exhaustive small graphs (thorough): every graph on 3 nodes, every single removal with pruning
        if ctx.tier == "thorough":
            import itertools
            pairs = [(a, b) for a in range(3) for b in range(3)]
            for mask in range(1 << len(pairs)):
                edges = [p for i, p in enumerate(pairs) if mask >> i & 1]
                base = [("add", 0, None), ("add", 1, None), ("add", 2, None)] + [("add", a, b) for a, b in edges]
                for t in range(3):
                    self._run_history(ctx, base + [("rm", [t], True)], lines, expect, meta, "exhaustive3")
                self._run_history(ctx, base + [("prom", 0)], lines, expect, meta, "exhaustive3")
                self._run_history(ctx, base + [("rep", 0, 7)], lines, expect, meta, "exhaustive3")
            del itertools
        got = ctx.lean(DRIVER, lines)
        bad = set()
        for gl, e, mt in zip(got, expect, meta):
            ops, i = mt[0], mt[1]
            if len(mt) > 2:
                if gl != e and id(ops) not in bad:
                    bad.add(id(ops))
                    ctx.disagree("model vs GraphMapper", f"after {ops[: i + 1]}: code {e!r}, Lean model {gl!r}", {"mapper_adds": mt[2]})
                continue
            if e.startswith("*|"):                      # mapper histories: only the graph is compared
                gl, e = gl.split("|", 1)[-1], e[2:]
            if gl != e and id(ops) not in bad:
                bad.add(id(ops))
                ctx.disagree("model vs DirectedGraph", f"after {ops[: i + 1]}: code {e!r}, Lean model {gl!r}", {"ops": ops[: i + 1]})

    def replay(self, ctx: Ctx, data) -> None:
        r = data.get("replay") or (data.get("no_longer_checks") or [{}])[0].get("case") or {}
        if "mapper_adds" in r:
            lines, expect, meta = [], [], []
            self._run_mapper_adds(ctx, r["mapper_adds"], lines, expect, meta)
            got = ctx.lean(DRIVER, lines)
            for ln, gl, e in zip(lines, got, expect):
                print(ln, "\n   code ", e, "\n   model", gl, "" if gl == e else "   <-- model differs")
            return
        if "mapper" in r:
            case = r["mapper"]
            case["tokens"] = {int(k): tuple(v) for k, v in case["tokens"].items()}
            case["edges"] = [tuple(e) for e in case["edges"]]
            case["steps"] = [tuple(x) for x in case["steps"]]
            lines, expect, meta = [], [], []
            self._run_mapper(ctx, case, lines, expect, meta)
            for ln, e in zip(lines, expect):
                print(ln, "->", e)
            return
        ops = [tuple(o) for o in r.get("ops", [])]
        if not ops:
            return super().replay(ctx, data)
        g, ref = ru.DirectedAcyclicGraph("g"), RefGraph()
        lines = ["new"] + [op_line(o) for o in ops]
        got = ctx.lean(DRIVER, lines)[1:]
        for op, ml in zip(ops, got):
            ret, rret = apply_real(g, op), apply_ref(ref, op)
            real, want = f"{ret}|{dump_real(g)}", f"{rret}|{dump_ref(ref)}"
            print(f"{op}\n   code : {real}\n   spec : {want}\n   model: {ml}")
            m = mirror_ok(g)
            if m:
                ctx.fail("graph:mirror-broken", m, r)
            if f"{_sorted_ret(ret)}|{dump_real(g)}" != want:
                ctx.fail("graph:differs-from-plain-graph", f"{op}: code {real}, reference {want}", r)
            if real != ml:
                ctx.disagree("model vs DirectedGraph", f"{op}: code {real}, model {ml}", r)


PROPERTY = C20()
