import SFV.Model.ProvGraph
import SFV.Gen.AvailGuards
import SFV.Model.Proto
open SFV SFV.Proto SFV.Prov

/-! one line = one graph:  `bg <fuel> | <inputs: ids> | <stop ids> | <deps: t:p1,p2 ...>`
    answer: `ok nodes=<sorted ids> edges=<sorted p>t pairs>` | `noprev <t>` | `fuel`;  `avail …` see below -/

def parseIds (s : String) : List Nat := (s.splitOn ",").filterMap (·.toNat?)
def idsS (l : List Nat) : String := if l.isEmpty then "-" else ",".intercalate (l.map toString)

def sortNat (l : List Nat) : List Nat := l.mergeSort (· ≤ ·)
def sortPairs (l : List (Nat × Nat)) : List (Nat × Nat) := l.mergeSort (fun a b => a.1 < b.1 || (a.1 == b.1 && a.2 ≤ b.2))

/-! `avail <leaf|list|record> <leaf>…` with leaf = `p<0|1>` (plain token, recoverable flag) or `f<0|1>:<copies>` (file token with ONE
    path; `<copies>` = one 0/1 digit per primary data location, `-` for none) -> `avail=<true|false>` by the availability model run with
    the GENERATED quantifiers -/
def parseLeaf (w : String) : Option SFV.Avail.Tok :=
  let bit (c : Char) := c == '1'
  match w.toList with
  | ['p', r] => some (.plain (bit r))
  | 'f' :: r :: ':' :: cs => some (.file (bit r) [if cs == ['-'] then [] else cs.map bit])
  | _ => none

def handle : List String → String
  | "avail" :: kind :: leaves =>
      match leaves.mapM parseLeaf with
      | none => "bad-op"
      | some ls =>
          let t : Option SFV.Avail.Tok := match kind, ls with
            | "leaf", [l] => some l
            | "list", ls => some (.list ls)
            | "record", ls => some (.record ls)
            | _, _ => none
          match t with
          | some t => s!"avail={SFV.Avail.avail SFV.Gen.availCfg t}"
          | none => "bad-op"
  | "bg" :: fuel :: "|" :: rest =>
      match fuel.toNat? with
      | none => "bad-op"
      | some fuel =>
        let parts := (" ".intercalate rest).splitOn " | "
        match parts with
        | [inp, stop, deps] =>
            let inputs := parseIds inp.trimAscii.toString
            let stops := parseIds stop.trimAscii.toString
            let dl : List (Nat × List Nat) := (words deps).filterMap (fun w =>
              match w.splitOn ":" with
              | [t, ps] => t.toNat?.map (fun t => (t, parseIds ps))
              | _ => none)
            let depf : Nat → List Nat := fun t => (dl.find? (·.1 == t)).map (·.2) |>.getD []
            match buildGraph ⟨depf, fun t => stops.contains t⟩ fuel inputs with
            | .ok s => s!"ok nodes={idsS (sortNat s.nodes)} edges={",".intercalate ((sortPairs s.edges).map (fun e => s!"{e.1}>{e.2}"))}"
            | .noPrev t => s!"noprev {t}"
            | .outOfFuel => "fuel"
        | _ => "bad-op"
  | _ => "bad-op"

def main : IO Unit := runPure handle
