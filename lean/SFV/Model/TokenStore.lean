/-! `Token.save` / `Token.load` (`streamflow/core/workflow.py`, `streamflow/workflow/token.py`) for the recursive token
    values: a plain `Token` stores its JSON value, a `ListToken` stores the ids of its (separately saved) members, an
    `ObjectToken` stores `key → id`, a `JobToken` stores its `Job` (`{"job": {name, workflow_id, inputs: key → id, directories}}`,
    the input tokens saved first by `Job._save_additional_params`) and its own `recoverable` flag. File tokens
    (`CWLFileToken`: no `_save_value` / `_load` of their own) are plain tokens whose value is a JSON document. Member chains are cons cells so that the type is not nested. Core Lean only. -/
namespace SFV.TokenStore

inductive Tok where
  /-- `Token(value, tag, recoverable)`; the JSON value is opaque -/
  | plain (tag : String) (v : Nat) (rec : Bool)
  /-- `ListToken(value=[…], tag)` -/
  | list (tag : String) (items : Tok)
  /-- `ObjectToken(value={…}, tag)` -/
  | obj (tag : String) (fields : Tok)
  /-- `JobToken(value=Job(name, workflow_id, inputs={…}, directories), tag, recoverable)`; the scalars of the job are opaque -/
  | job (tag : String) (jv : Nat) (rec : Bool) (inputs : Tok)
  | nil
  | cons (hd tl : Tok)
  | kcons (key : String) (hd tl : Tok)
deriving DecidableEq, Repr

inductive Kind where | plain | list | obj | job
deriving DecidableEq, Repr

/-- the `value` column -/
inductive SVal where
  | json (v : Nat)
  | ids (l : List Nat)
  | kv (l : List (String × Nat))
  | jobv (jv : Nat) (inputs : List (String × Nat))
deriving DecidableEq, Repr

structure Row where
  kind : Kind
  tag : String
  value : SVal
  rcv : Bool
deriving DecidableEq, Repr

structure DB where
  rows : Nat → Option Row
  /-- next `lastrowid` -/
  next : Nat

/-- `database.add_token(...)` -/
def DB.insert (db : DB) (r : Row) : DB × Nat :=
  ({ rows := fun i => if i = db.next then some r else db.rows i, next := db.next + 1 }, db.next)

inductive Mode where | tok | chain
deriving DecidableEq

def keysOf : Tok → List String
  | .kcons k _ t => k :: keysOf t
  | _ => []

/-- `Token.save`: members first (`_save_value`), then the token's own row. Returns the ids produced: one id in mode `tok`,
    the members' ids in mode `chain`. -/
def save : Mode → Tok → DB → DB × List Nat
  | .tok, .plain tag v r, db => let x := db.insert ⟨.plain, tag, .json v, r⟩; (x.1, [x.2])
  | .tok, .list tag items, db =>
      let s := save .chain items db
      let x := s.1.insert ⟨.list, tag, .ids s.2, false⟩
      (x.1, [x.2])
  | .tok, .obj tag fields, db =>
      let s := save .chain fields db
      let x := s.1.insert ⟨.obj, tag, .kv ((keysOf fields).zip s.2), false⟩
      (x.1, [x.2])
  | .tok, .job tag jv r inputs, db =>
      let s := save .chain inputs db
      let x := s.1.insert ⟨.job, tag, .jobv jv ((keysOf inputs).zip s.2), r⟩
      (x.1, [x.2])
  | .chain, .cons h t, db =>
      let a := save .tok h db
      let b := save .chain t a.1
      (b.1, a.2 ++ b.2)
  | .chain, .kcons _ h t, db =>
      let a := save .tok h db
      let b := save .chain t a.1
      (b.1, a.2 ++ b.2)
  | _, _, db => (db, [])

mutual
  /-- `Token.load(id)` through the loading context -/
  def load : Nat → DB → Nat → Option Tok
    | 0, _, _ => none
    | fuel + 1, db, id =>
        match db.rows id with
        | none => none
        | some r =>
            match r.kind, r.value with
            | .plain, .json v => some (.plain r.tag v r.rcv)
            | .list, .ids l => (loadIds fuel db l).map (.list r.tag)
            | .obj, .kv l => (loadKv fuel db l).map (.obj r.tag)
            | .job, .jobv jv l => (loadKv fuel db l).map (.job r.tag jv r.rcv)
            | _, _ => none
  def loadIds : Nat → DB → List Nat → Option Tok
    | 0, _, _ => none
    | _ + 1, _, [] => some .nil
    | fuel + 1, db, i :: is =>
        match load fuel db i, loadIds fuel db is with
        | some h, some t => some (.cons h t)
        | _, _ => none
  def loadKv : Nat → DB → List (String × Nat) → Option Tok
    | 0, _, _ => none
    | _ + 1, _, [] => some .nil
    | fuel + 1, db, (k, i) :: is =>
        match load fuel db i, loadKv fuel db is with
        | some h, some t => some (.kcons k h t)
        | _, _ => none
end

/-- `ListToken.recoverable` / `ObjectToken.recoverable`: derived from the members -/
def recoverable : Tok → Bool
  | .plain _ _ r => r
  | .list _ items => recoverable items
  | .obj _ fields => recoverable fields
  | .job _ _ r _ => r
  | .nil => true
  | .cons h t => recoverable h && recoverable t
  | .kcons _ h t => recoverable h && recoverable t

inductive WMode where | tok | items | fields

/-- well-formed token values: a token is plain or a list/object of well-formed members -/
def Wf : WMode → Tok → Prop
  | .tok, .plain _ _ _ => True
  | .tok, .list _ items => Wf .items items
  | .tok, .obj _ fields => Wf .fields fields
  | .tok, .job _ _ _ inputs => Wf .fields inputs
  | .items, .nil => True
  | .items, .cons h t => Wf .tok h ∧ Wf .items t
  | .fields, .nil => True
  | .fields, .kcons _ h t => Wf .tok h ∧ Wf .fields t
  | _, _ => False

end SFV.TokenStore
