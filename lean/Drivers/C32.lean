import SFV.Model.Remap
import SFV.Model.Proto
open SFV SFV.Proto SFV.Remap

def hs (h : String) : Option Str := (stringOfHex h).map (·.toList)
def sh (s : Str) : String := hexOfString (String.ofList s)

/-- components of the current directory from its path -/
def cwdComps (cwd : Str) : List Str := (SFV.splitSlash cwd).filter (· ≠ [])

mutual
  /-- token stream → value: `N`, `S:<hex>`, `I:<int>`, `L:<n>` + n values, `O:<n>` + n × (`K:<hex>` value) -/
  def parseVal : Nat → List String → Option (Val × List String)
    | 0, _ => none
    | fuel + 1, tok :: rest =>
        if tok = "N" then some (.null, rest)
        else if tok.startsWith "S:" then (hs (tok.drop 2).toString).map (fun s => (.str s, rest))
        else if tok.startsWith "I:" then ((tok.drop 2).toString.toInt?).map (fun n => (.num n, rest))
        else if tok.startsWith "L:" then
          match (tok.drop 2).toString.toNat? with
          | some n => parseList fuel n rest
          | none => none
        else if tok.startsWith "O:" then
          match (tok.drop 2).toString.toNat? with
          | some n => parseObj fuel n rest
          | none => none
        else none
    | _, [] => none
  def parseList : Nat → Nat → List String → Option (Val × List String)
    | _, 0, rest => some (.lnil, rest)
    | 0, _, _ => none
    | fuel + 1, n + 1, toks =>
        match parseVal fuel toks with
        | some (h, rest) =>
            match parseList fuel n rest with
            | some (t, rest') => some (.lcons h t, rest')
            | none => none
        | none => none
  def parseObj : Nat → Nat → List String → Option (Val × List String)
    | _, 0, rest => some (.onil, rest)
    | 0, _, _ => none
    | fuel + 1, n + 1, k :: toks =>
        if k.startsWith "K:" then
          match hs (k.drop 2).toString, parseVal fuel toks with
          | some key, some (v, rest) =>
              match parseObj fuel n rest with
              | some (r, rest') => some (.ocons key v r, rest')
              | none => none
          | _, _ => none
        else none
    | _, _, [] => none
end

def listLen : Val → Nat
  | .lcons _ t => listLen t + 1
  | _ => 0
def objLen : Val → Nat
  | .ocons _ _ r => objLen r + 1
  | _ => 0

mutual
  def showVal : Val → List String
    | .null => ["N"]
    | .str s => ["S:" ++ sh s]
    | .num n => [s!"I:{n}"]
    | .lnil => ["L:0"]
    | .lcons h t => s!"L:{listLen t + 1}" :: (showVal h ++ showElems t)
    | .onil => ["O:0"]
    | .ocons k v r => s!"O:{objLen r + 1}" :: ("K:" ++ sh k) :: (showVal v ++ showEntries r)
  def showElems : Val → List String
    | .lcons h t => showVal h ++ showElems t
    | _ => []
  def showEntries : Val → List String
    | .ocons k v r => ("K:" ++ sh k) :: (showVal v ++ showEntries r)
    | _ => []
end

def handle : List String → String
  | ["unq", h] =>
      match hs h with
      | some s => sh (unquote s)
      | none => "bad-op"
  | ["scheme", h] =>
      match hs h with
      | some s => sh (scheme s)
      | none => "bad-op"
  | ["rp", cwd, p, o, n] =>
      match hs cwd, hs p, hs o, hs n with
      | some cwd, some p, some o, some n =>
          match remapPath (cwdComps cwd) p o n with
          | some r => sh r
          | none => "ValueError"
      | _, _, _, _ => "bad-op"
  | ["rv", cwd, o, n, v] =>
      match hs cwd, hs o, hs n with
      | some cwd, some o, some n =>
          let toks := v.splitOn ","
          match parseVal (2 * toks.length + 2) toks with
          | some (val, []) =>
              match remapValue (cwdComps cwd) o n val with
              | some r => ",".intercalate (showVal r)
              | none => "raises"
          | _ => "bad-op"
      | _, _, _ => "bad-op"
  | _ => "bad-op"

def main : IO Unit := runPure handle
