import SFV.Model.Queue
import SFV.Gen.QueueGuards
import SFV.Model.Proto
open SFV SFV.Proto SFV.Queue

def ids (l : List Nat) : String := if l.isEmpty then "-" else ",".intercalate (l.map toString)
def optS : Option Nat → String
  | some n => toString n
  | none => "none"
def pcS : Pc → String
  | .idle => "idle" | .needClear => "needClear" | .poll => "poll" | .query => "query" | .answered => "answered"
  | .popped => "popped" | .gotOut o => s!"gotOut {optS o}" | .done o c => s!"done {optS o} {optS c}" | .failed => "failed"
def upcS : UPc → String
  | .idle => "idle" | .raised => "raised" | .cancelling js => s!"cancelling {ids js}" | .sent js => s!"sent {ids js}"
  | .finished js => s!"finished {ids js}"

def act (s : St) (a : Act) (obs : St → String) : St × String :=
  match step Gen.queueCfg s a with
  | some s' => (s', "ok " ++ obs s')
  | none => (s, "disabled")

def handle (s : St) : List String → St × String
  | ["reset"] => (init (fun j => (j, j)), "ok")
  | ["res", j, o, c] =>
      match j.toNat?, o.toNat?, c.toNat? with
      | some j, some o, some c => ({ s with res := fun k => if k = j then (o, c) else s.res k }, "ok")
      | _, _, _ => (s, "bad-op")
  | ["cfg"] => (s, s!"clears={Gen.queueCfg.clearsCache} inner={Gen.queueCfg.passInner}")
  | ["states"] => (s, ",".intercalate Gen.slurmQueryStates)
  | ["pc", j] => match j.toNat? with
      | some j => (s, pcS (s.pc j))
      | none => (s, "bad-op")
  | ["upc"] => (s, upcS s.upc)
  | ["queue"] => (s, ids s.queue)
  | ["expire"] => act s .expire (fun _ => "")
  | ["ustart"] => act s .undeployStart (fun t => upcS t.upc)
  | ["scancel"] => act s .scancel (fun t => ids t.queue)
  | ["uend"] => act s .undeployEnd (fun t => upcS t.upc)
  | [op, j] =>
      match j.toNat? with
      | none => (s, "bad-op")
      | some j =>
        match op with
        | "submit" => act s (.submit j) (fun _ => "")
        | "clear" => act s (.clear j) (fun _ => "")
        | "hit" => act s (.pollHit j) (fun t => pcS (t.pc j))
        | "miss" => act s (.pollMiss j) (fun t => ids t.asked)
        | "answer" => act s (.answer j) (fun t => ids t.answer)
        | "store" => act s (.pollStore j) (fun t => pcS (t.pc j))
        | "out" => act s (.fetchOut j) (fun t => pcS (t.pc j))
        | "rc" => act s (.fetchRc j) (fun t => pcS (t.pc j))
        | "leave" => act s (.leave j) (fun _ => "")
        | _ => (s, "bad-op")
  | _ => (s, "bad-op")

def main : IO Unit := runStateful (init (fun j => (j, j))) handle
