import SFV.Model.RunCrate
import SFV.Model.Proto
open SFV SFV.Proto SFV.RunCrate

def parseRefs (s : String) : Option (List String) :=
  if s = "_" then some [] else (s.splitOn ",").mapM stringOfHex

/-- entities as triples `idhex f0|f1 refs`, then the literal token `names`, then the archive member names (hex) -/
partial def parseEntities : List String → Option (List Entity × List String)
  | "names" :: r => some ([], r)
  | i :: f :: rs :: rest => do
      let id ← stringOfHex i
      let refs ← parseRefs rs
      let (es, names) ← parseEntities rest
      pure ({ id := id, isFile := f == "f1", refs := refs } :: es, names)
  | _ => none

def b2s (b : Bool) : String := if b then "1" else "0"

def handle : List String → String
  | "crate" :: rest =>
      match parseEntities rest with
      | some (es, nameHex) =>
          match nameHex.mapM stringOfHex with
          | some names =>
              -- replay the same entities through the manager model: put each entity, register each file
              let ops : List Op := es.map Op.put ++ (es.filter (·.isFile)).map (fun e => Op.mapFile ("src:" ++ e.id) e.id)
              let c := run ops
              "unique:" ++ b2s (idsUnique es) ++ " closed:" ++ b2s (refsClosed es) ++ " files:" ++ b2s (filesPresent es names) ++
              " model-unique:" ++ b2s (idsUnique (emitted c)) ++ " model-size:" ++ toString (emitted c).length ++
              " model-archive:" ++ toString (archiveNames (fun _ => true) c.files []).length
          | none => "bad-op"
      | none => "bad-op"
  | _ => "bad-op"

def main : IO Unit := runPure handle
