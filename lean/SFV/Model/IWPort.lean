/-! `InterWorkflowPort` (`streamflow/workflow/port.py`): boundary rules that forward the tokens of a recovered
    producer port to the ports of the recovery workflows waiting for them (C19: concurrent recoveries share work).
    Port `0` is the producer port itself (`boundary.port is self` → `super().put`); the other ports are targets
    without boundary rules of their own (their `put` is `Port.put`). A token is identified by its tag (a `Nat`). -/
namespace SFV.IWPort

inductive Item where
  | tok (tag : Nat)
  | term
deriving DecidableEq, Repr

/-- `BoundaryRule` : target port, the tags still awaited, `PROPAGATE in action`, `TERMINATE in action` -/
structure Rule where
  port : Nat
  tags : List Nat
  prop : Bool
  termn : Bool
deriving Repr

structure St where
  lists : Nat → List Item
  rules : List Rule

def St.init : St := { lists := fun _ => [], rules := [] }

/-- `Port.put` on port `p` -/
def push (ls : Nat → List Item) (p : Nat) (x : Item) : Nat → List Item :=
  fun q => if q = p then ls q ++ [x] else ls q

/-- `_execute_boundary_action(boundary, token)` -/
def exec (ls : Nat → List Item) (r : Rule) (t : Nat) : Nat → List Item :=
  let ls1 := if r.prop then push ls r.port (.tok t) else ls
  if r.termn then push ls1 r.port .term else ls1

/-- the `for boundary in self.boundaries` loop of `put`; the Bool is `matched_self` -/
def putLoop (t : Nat) : List Rule → (Nat → List Item) → Bool → List Rule × (Nat → List Item) × Bool
  | [], ls, m => ([], ls, m)
  | r :: rs, ls, m =>
    let r' : Rule := { r with tags := r.tags.erase t }
    let ls' := if r'.tags.isEmpty then exec ls r' t else ls
    let m' := if r'.tags.isEmpty then (m || r'.port == 0) else m
    let res := putLoop t rs ls' m'
    (r' :: res.1, res.2.1, res.2.2)

/-- the catch-up loop of `add_inter_port` over the tokens already in the port -/
def addLoop : List Nat → Rule → (Nat → List Item) → Rule × (Nat → List Item)
  | [], r, ls => (r, ls)
  | t :: ts, r, ls =>
    let r' : Rule := { r with tags := r.tags.erase t }
    let ls' := if r'.tags.isEmpty then exec ls r' t else ls
    addLoop ts r' ls'

def tagsOf : List Item → List Nat
  | [] => []
  | .tok t :: r => t :: tagsOf r
  | .term :: r => tagsOf r

inductive Op where
  | put (t : Nat)
  | putTerm
  | add (port : Nat) (tags : List Nat) (prop termn : Bool)
deriving Repr

def step (s : St) : Op → St
  | .put t =>
    let res := putLoop t s.rules s.lists false
    { rules := res.1, lists := if res.2.2 then res.2.1 else push res.2.1 0 (.tok t) }
  | .putTerm => { s with lists := push s.lists 0 .term }
  | .add p tags pr tm =>
    let res := addLoop (tagsOf (s.lists 0)) { port := p, tags := tags, prop := pr, termn := tm } s.lists
    { rules := s.rules ++ [res.1], lists := res.2 }

def run (ops : List Op) (s : St) : St := ops.foldl step s

end SFV.IWPort
