"""Drive the REAL ProvenanceGraph.build_graph / create_graph_mapper on a generated provenance relation stored in a real
(in-memory sqlite) StreamFlow database. Availability = the persisted `recoverable` flag of plain tokens
(`Token.is_available`), job tokens of recovering jobs through a stub `failure_manager.is_recovering`.
Tokens with a `copies` list are real CWLFileTokens whose single path is registered in the real DataManager on one primary data
location per entry (distinct local deployments, related to each other like the copies a transfer makes); entry k says whether
copy k still exists on disk, so `FileToken.is_available` (any copy exists) runs unmodified. Tokens with `items` are real ListTokens /
ObjectTokens (records) of such tokens (`is_available`: every element is available)."""
from __future__ import annotations

import asyncio
import logging
import os
import tempfile


async def _run(case: dict) -> dict:
    from streamflow.core.exception import FailureHandlingException
    from streamflow.core.workflow import Job, Token, Workflow
    from streamflow.main import build_context
    from streamflow.recovery.utils import ProvenanceGraph
    from streamflow.workflow.token import JobToken, ListToken, ObjectToken
    from streamflow.core.deployment import ExecutionLocation
    LOCAL_LOCATION = "__LOCAL__"
    from streamflow.cwl.token import CWLFileToken

    root = tempfile.mkdtemp(prefix="sfv-prov-")
    context = build_context({"database": {"type": "default", "config": {"connection": ":memory:"}}, "path": root})
    try:
        wf = Workflow(context=context, name="prov", config={})
        ports = [wf.create_port() for _ in range(max(1, case.get("ports", 3)))]
        await wf.save(context.database)
        toks = {}

        def make(t: dict, key: str, tag: str):
            """plain token | file token with `copies` | list / object token of such (`items`, `composite`)"""
            if "items" in t:
                subs = [make(x, f"{key}_{k}", tag) for k, x in enumerate(t["items"])]
                if t.get("composite") == "object":
                    return ObjectToken(value={f"f{k}": x for k, x in enumerate(subs)}, tag=tag)
                return ListToken(value=subs, tag=tag)
            if "copies" in t:
                paths = [os.path.join(root, f"loc{k}", f"t{key}", "out.txt") for k in range(max(1, len(t["copies"])))]
                dlocs = []
                for k, present in enumerate(t["copies"]):
                    loc = (ExecutionLocation(deployment=LOCAL_LOCATION, name=LOCAL_LOCATION, local=True) if k == 0 else
                           ExecutionLocation(deployment=f"replica{k}", name=f"replica{k}", local=True))
                    if present:
                        os.makedirs(os.path.dirname(paths[k]), exist_ok=True)
                        with open(paths[k], "w") as fh:
                            fh.write(key)
                    dlocs.append(context.data_manager.register_path(loc, paths[k], relpath="out.txt"))
                for d in dlocs[1:]:
                    context.data_manager.register_relation(dlocs[0], d)
                return CWLFileToken(value={"class": "File", "path": paths[0], "basename": "out.txt"}, tag=tag, recoverable=bool(t["avail"]))
            return Token(value=key, tag=tag, recoverable=bool(t["avail"]))
        for t in case["tokens"]:
            tid = t["id"]
            if t.get("job"):
                tok = JobToken(value=Job(name=f"/step{tid}/0", workflow_id=wf.persistent_id, inputs={}, input_directory=None,
                                         output_directory=None, tmp_directory=None), tag="0", recoverable=bool(t["avail"]))
            else:
                tok = make(t, str(tid), f"0.{tid}")
            await tok.save(context.database, port_id=ports[tid % len(ports)].persistent_id)
            toks[tid] = tok
        for t in case["tokens"]:
            if t["deps"]:
                await context.database.add_provenance(inputs=[toks[d].persistent_id for d in t["deps"]], token=toks[t["id"]].persistent_id)
        recovering = {f"/step{t['id']}/0" for t in case["tokens"] if t.get("job") and t.get("recovering")}

        class FM:
            async def is_recovering(self, name):
                return name in recovering

            async def close(self):
                return None
        context.failure_manager = FM()
        back = {tok.persistent_id: tid for tid, tok in toks.items()}
        pg = ProvenanceGraph(context)
        try:
            await asyncio.wait_for(pg.build_graph(inputs=[toks[i] for i in case["inputs"]]), case.get("timeout", 120))
        except FailureHandlingException as e:
            return {"outcome": "noprev", "msg": str(e)[:120]}
        except asyncio.TimeoutError:
            return {"outcome": "hang"}
        nodes = sorted(back[n] for n in pg.dag_tokens.get_nodes())
        edges = sorted((back[u], back[v]) for u in pg.dag_tokens.get_nodes() for v in pg.dag_tokens.successors(u))
        info = {back[k]: bool(v.is_available) for k, v in pg.info_tokens.items()}
        res = {"outcome": "ok", "nodes": nodes, "edges": [list(e) for e in edges], "info": {str(k): v for k, v in info.items()}}
        return res
    finally:
        try:
            await context.close()
        except Exception:  # noqa: BLE001
            pass
        import shutil
        shutil.rmtree(root, ignore_errors=True)


def run_case(case: dict) -> dict:
    import streamflow.log_handler  # noqa: F401  (sets the level on import)
    logging.getLogger("streamflow").setLevel(logging.CRITICAL)
    logging.disable(logging.CRITICAL)
    return asyncio.run(_run(case))
