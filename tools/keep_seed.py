#!/usr/bin/env python3
"""tools/keep_seed.py <src dir> <seed id> <property> <needs> <detected-by> — copy a confirmed seeded change into seeded/<id>/"""
import json, os, shutil, sys
src, sid, prop, needs, detected = sys.argv[1:6]
root = os.path.join(os.path.dirname(os.path.abspath(__file__)), "..", "seeded", sid)
os.makedirs(root, exist_ok=True)
for fn in os.listdir(src):
    if fn in ("patch.diff", "demo.py", "test_demo.py", "notes.md"):
        shutil.copy(os.path.join(src, fn), os.path.join(root, fn))
meta = {
    "property": prop,
    "breaks": open(os.path.join(src, "notes.md")).read().split("\n\n")[0][:600] if os.path.exists(os.path.join(src, "notes.md")) else "",
    "needs_to_manifest": needs,
    "confirmed": "tools/validate_seed.sh: demo exits 0 on the clean tree and non-zero with the patch; the 171 stable baseline tests still pass with the patch",
    "check_result": detected,
    "ran": [f"tools/validate_seed.sh {src}", f"tools/run_seed.sh {src} {prop}"],
}
json.dump(meta, open(os.path.join(root, "meta.json"), "w"), indent=1)
print("kept", sid)
