import SFV.Model.ProvGraph
/-! The loop invariant of `build_graph`. -/
namespace SFV.Prov

theorem mem_addNode {l : List Nat} {n m : Nat} : m ∈ addNode l n ↔ m ∈ l ∨ m = n := by
  unfold addNode; split <;> simp <;> grind

theorem mem_foldl_addNode {ps l : List Nat} {m : Nat} : m ∈ ps.foldl addNode l ↔ m ∈ l ∨ m ∈ ps := by
  induction ps generalizing l with
  | nil => simp
  | cons p ps ih => simp only [List.foldl_cons, ih, mem_addNode, List.mem_cons]; grind

theorem mem_enqueue {info q ps : List Nat} {m : Nat} :
    m ∈ enqueue info q ps ↔ m ∈ q ∨ (m ∈ ps ∧ m ∉ info) := by
  induction ps generalizing q with
  | nil => simp [enqueue]
  | cons p ps ih =>
    simp only [enqueue]
    split
    · rw [ih]; simp only [List.mem_cons]; grind
    · rw [ih]; simp only [List.mem_append, List.mem_cons, List.mem_singleton]; grind

/-- the loop invariant -/
def Inv (inp : In) (inputs : List Nat) (s : BSt) : Prop :=
  (∀ n, n ∈ s.nodes → Reach inp inputs n) ∧
  (∀ p t, (p, t) ∈ s.edges → Reach inp inputs t ∧ inp.stop t = false ∧ p ∈ inp.deps t) ∧
  (∀ n, n ∈ s.queue → n ∈ s.nodes) ∧
  (∀ n, n ∈ s.nodes → n ∈ s.info ∨ n ∈ s.queue) ∧
  (∀ t, t ∈ s.info → inp.stop t = true ∨ (inp.deps t ≠ [] ∧ ∀ p, p ∈ inp.deps t → p ∈ s.nodes ∧ (p, t) ∈ s.edges)) ∧
  (∀ n, n ∈ inputs → n ∈ s.nodes) ∧
  (∀ t, t ∈ s.info → t ∈ s.nodes)

theorem inv_start (inp : In) (inputs : List Nat) : Inv inp inputs (start inputs) := by
  refine ⟨?_, ?_, ?_, ?_, ?_, ?_, ?_⟩ <;> simp [start, mem_foldl_addNode]
  · intro n hn; exact Reach.input hn

theorem inv_visit {inp : In} {inputs : List Nat} {s s' : BSt} {t : Nat} {q : List Nat}
    (h : Inv inp inputs s) (hq : s.queue = t :: q) (hv : visit inp s t q = some s') : Inv inp inputs s' := by
  obtain ⟨h1, h2, h3, h4, h5, h6, h7⟩ := h
  have ht : t ∈ s.nodes := h3 t (by rw [hq]; simp)
  have hqs : ∀ n, n ∈ q → n ∈ s.nodes := fun n hn => h3 n (by rw [hq]; simp [hn])
  unfold visit at hv
  split at hv
  · rename_i hstop
    cases hv
    refine ⟨?_, ?_, ?_, ?_, ?_, ?_, ?_⟩ <;> simp only [mem_addNode] <;> grind
  · rename_i hstop
    split at hv
    · cases hv
    · rename_i hne
      cases hv
      have hstop' : inp.stop t = false := by simpa using hstop
      have hreach : ∀ p, p ∈ inp.deps t → Reach inp inputs p := fun p hp => Reach.dep (h1 t ht) hstop' hp
      refine ⟨?_, ?_, ?_, ?_, ?_, ?_, ?_⟩
      · intro n hn
        simp only [mem_foldl_addNode, mem_addNode] at hn
        rcases hn with (hn | rfl) | hn
        · exact h1 n hn
        · exact h1 _ ht
        · exact hreach n hn
      · intro p t' hpt
        simp only [List.mem_append, List.mem_map] at hpt
        rcases hpt with hpt | ⟨p', hp', heq⟩
        · exact h2 p t' hpt
        · cases heq; exact ⟨h1 t ht, hstop', hp'⟩
      · intro n hn
        simp only [mem_enqueue] at hn
        simp only [mem_foldl_addNode, mem_addNode]
        rcases hn with hn | ⟨hn, _⟩
        · exact Or.inl (Or.inl (hqs n hn))
        · exact Or.inr hn
      · intro n hn
        simp only [mem_foldl_addNode, mem_addNode] at hn
        simp only [mem_addNode, mem_enqueue]
        rcases hn with (hn | rfl) | hn
        · rcases h4 n hn with h | h
          · exact Or.inl (Or.inl h)
          · rw [hq] at h
            rcases List.mem_cons.mp h with rfl | h
            · exact Or.inl (Or.inr rfl)
            · exact Or.inr (Or.inl h)
        · exact Or.inl (Or.inr rfl)
        · by_cases hi : n ∈ s.info
          · exact Or.inl (Or.inl hi)
          · exact Or.inr (Or.inr ⟨hn, hi⟩)
      · intro t' ht'
        simp only [mem_addNode] at ht'
        rcases ht' with ht' | rfl
        · rcases h5 t' ht' with h | ⟨hne', h⟩
          · exact Or.inl h
          · refine Or.inr ⟨hne', fun p hp => ?_⟩
            obtain ⟨a, b⟩ := h p hp
            exact ⟨by simp only [mem_foldl_addNode, mem_addNode]; exact Or.inl (Or.inl a), by simp [b]⟩
        · refine Or.inr ⟨hne, fun p hp => ?_⟩
          exact ⟨by simp only [mem_foldl_addNode, mem_addNode]; exact Or.inr hp, by simp; exact Or.inr hp⟩
      · intro n hn
        simp only [mem_foldl_addNode, mem_addNode]
        exact Or.inl (Or.inl (h6 n hn))
      · intro t' ht'
        simp only [mem_addNode] at ht'
        simp only [mem_foldl_addNode, mem_addNode]
        rcases ht' with ht' | rfl
        · exact Or.inl (Or.inl (h7 t' ht'))
        · exact Or.inl (Or.inr rfl)

theorem inv_bfs {inp : In} {inputs : List Nat} : ∀ (fuel : Nat) {s s' : BSt},
    Inv inp inputs s → bfs inp fuel s = .ok s' → Inv inp inputs s' ∧ s'.queue = [] := by
  intro fuel
  induction fuel with
  | zero =>
    intro s s' h hb
    simp only [bfs] at hb
    split at hb
    · cases hb; rename_i hq; exact ⟨h, hq⟩
    · cases hb
  | succ fuel ih =>
    intro s s' h hb
    simp only [bfs] at hb
    split at hb
    · cases hb; rename_i hq; exact ⟨h, hq⟩
    · rename_i t q hq
      split at hb
      · cases hb
      · rename_i s1 hv
        exact ih (inv_visit h hq hv) hb

end SFV.Prov
