import SFV.Model.FS
namespace SFV.FS

/-- parents of existing entries are directories -/
def WF (fs : FS) : Prop := ∀ q, fs q ≠ none → ∀ r, r <+: q → r ≠ q → fs r = some .dir

theorem set_self (fs : FS) (p : Path) (n : Option Node) : set fs p n p = n := by simp [set]
theorem set_other (fs : FS) (p q : Path) (n : Option Node) (h : q ≠ p) : set fs p n q = fs q := by simp [set, h]

theorem dropLast_ne_self (p : Path) (h : p ≠ []) : p.dropLast ≠ p := by
  intro e
  have := congrArg List.length e
  simp at this
  cases p with
  | nil => exact h rfl
  | cons a r => simp at this

theorem not_prefix_dropLast (p : Path) (h : p ≠ []) : ¬ (p <+: p.dropLast) := by
  intro hp
  have := hp.length_le
  simp at this
  cases p with
  | nil => exact h rfl
  | cons a r => simp at this; omega

/-- what `mkdir -p` leaves: the target is a directory, nothing outside its ancestors changed -/
theorem mkdirP_spec : ∀ (n : Nat) (fs fs' : FS) (p : Path), mkdirP n fs p = some fs' →
    isDir fs' p = true ∧ ∀ r, ¬ (r <+: p) → fs' r = fs r := by
  intro n
  induction n with
  | zero =>
    intro fs fs' p h
    simp only [mkdirP] at h
    split at h
    · cases h; rename_i hd; exact ⟨hd, fun _ _ => rfl⟩
    · cases h
  | succ n ih =>
    intro fs fs' p h
    simp only [mkdirP] at h
    split at h
    · cases h; rename_i hd; exact ⟨by simp [isDir, hd], fun _ _ => rfl⟩
    · cases h
    · split at h
      · cases h
      · rename_i hne
        split at h
        · rename_i fs1 h1
          cases h
          obtain ⟨_, hout⟩ := ih fs fs1 p.dropLast h1
          refine ⟨by simp [isDir, set], ?_⟩
          intro r hr
          have hrp : r ≠ p := fun e => hr (e ▸ List.prefix_refl _)
          rw [set_other _ _ _ _ hrp]
          exact hout r (fun hpre => hr (hpre.trans (List.dropLast_prefix p)))
        · cases h

/-- **`mkdir -p` is `LocalStreamFlowPath.mkdir(parents=True, exist_ok=True)`** on every file system -/
theorem mkdirP_eq_local : ∀ (n : Nat) (fs : FS) (p : Path), mkdirP (n + 1) fs p = localMkdir n fs p true true := by
  intro n
  induction n with
  | zero =>
    intro fs p
    unfold mkdirP localMkdir
    cases hp : fs p with
    | some nd => cases nd <;> simp
    | none =>
      simp only
      by_cases he : p = []
      · simp [he]
      · simp only [he, if_false, mkdirP]
        cases hpar : fs p.dropLast with
        | none => simp [isDir, hpar]
        | some nd => cases nd <;> simp [isDir, hpar]
  | succ n ih =>
    intro fs p
    rw [mkdirP.eq_def, localMkdir.eq_def]
    cases hp : fs p with
    | some nd => cases nd <;> simp [hp]
    | none =>
      simp only [hp]
      by_cases he : p = []
      · simp [he]
      · simp only [he, if_false]
        rw [ih fs p.dropLast]
        cases hpar : fs p.dropLast with
        | some nd =>
          -- the parent exists: both sides look at it directly
          rw [localMkdir.eq_def]
          cases nd <;> simp [hpar]
        | none =>
          simp only [Bool.not_true, Bool.false_eq_true, if_false]
          cases hrec : localMkdir n fs p.dropLast true true with
          | none => simp
          | some fs1 =>
            have hspec := mkdirP_spec (n + 1) fs fs1 p.dropLast (by rw [ih]; exact hrec)
            have h1 : fs1 p = none := by
              rw [hspec.2 p (not_prefix_dropLast p he)]; exact hp
            simp [h1, hspec.1]

end SFV.FS
