"""Extractor: the status logic of the engine -> SFV/Gen/StepGuards.lean

* `Status` numbers (streamflow/core/workflow.py)
* `_reduce_statuses` (streamflow/workflow/step.py): the `match` arms of the loop and the final if-chain
* `BaseStep._get_status`
* `StreamFlowExecutor._wait_outputs`: the statuses on which the executor cancels; `run`: the statuses on which it raises;
  `_cancel`: whether it terminates the steps (calls `self.close()`) or only marks the executor closed
* `LoopCombinatorStep.run`: whether a FAILED / CANCELLED loop input stops the re-reading of terminated ports
"""
from __future__ import annotations

import ast
import os

from sfv.translate.expr import ExprTranslator, TranslateError, find_nodes, parse_function

TARGET = "SFV/Gen/StepGuards.lean"


def _status_numbers(repo: str) -> dict[str, int]:
    path = os.path.join(repo, "streamflow/core/workflow.py")
    with open(path) as f:
        tree = ast.parse(f.read())
    for node in tree.body:
        if isinstance(node, ast.ClassDef) and node.name == "Status":
            out = {}
            for st in node.body:
                if isinstance(st, ast.Assign) and isinstance(st.value, ast.Constant) and isinstance(st.value.value, int):
                    out[st.targets[0].id] = st.value.value
            if not {"SKIPPED", "COMPLETED", "FAILED", "CANCELLED", "RECOVERED"} <= set(out):
                raise TranslateError("Status: expected members are missing")
            return out
    raise TranslateError("class Status not found")


def _status_of(node: ast.AST, nums: dict[str, int], what: str) -> int:
    if isinstance(node, ast.Attribute) and isinstance(node.value, ast.Name) and node.value.id == "Status" and node.attr in nums:
        return nums[node.attr]
    raise TranslateError(f"{what}: `{ast.unparse(node)}` is not a Status member")


def generate(repo: str) -> tuple[str, str]:
    nums = _status_numbers(repo)
    names = {f"Status.{k}": str(v) for k, v in nums.items()}
    step_py = os.path.join(repo, "streamflow/workflow/step.py")
    # ---- _reduce_statuses ---------------------------------------------------------------------------------
    fn = parse_function(step_py, "_reduce_statuses")
    arg = fn.args.args[0].arg
    body = fn.body
    if len(body) != 4 or not all(isinstance(b, ast.Assign) for b in body[:2]) or not isinstance(body[2], ast.For) or not isinstance(body[3], ast.If):
        raise TranslateError("_reduce_statuses: expected two initialisations, a for loop and a final if-chain")
    inits = {b.targets[0].id: ast.unparse(b.value) for b in body[:2]}
    counter = next((k for k, v in inits.items() if v == "0"), None)
    flag = next((k for k, v in inits.items() if v == "False"), None)
    if counter is None or flag is None:
        raise TranslateError("_reduce_statuses: expected a counter initialised to 0 and a flag initialised to False")
    loop = body[2]
    if ast.unparse(loop.iter) != arg or loop.orelse or len(loop.body) != 1 or not isinstance(loop.body[0], ast.Match):
        raise TranslateError("_reduce_statuses: the loop is not `for status in statuses: match status`")
    var = loop.target.id
    m = loop.body[0]
    if ast.unparse(m.subject) != var:
        raise TranslateError("_reduce_statuses: match subject is not the loop variable")
    rets, skips, recs, seen = [], [], [], set()
    for case in m.cases:
        if not isinstance(case.pattern, ast.MatchValue) or case.guard is not None:
            raise TranslateError("_reduce_statuses: a case is not a plain `case Status.X`")
        code = _status_of(case.pattern.value, nums, "_reduce_statuses case")
        if code in seen:
            raise TranslateError("_reduce_statuses: a status appears in two cases")
        seen.add(code)
        if len(case.body) != 1:
            raise TranslateError("_reduce_statuses: a case body has more than one statement")
        st = case.body[0]
        if isinstance(st, ast.Return):
            rets.append((code, _status_of(st.value, nums, "_reduce_statuses return")))
        elif isinstance(st, ast.AugAssign) and isinstance(st.op, ast.Add) and ast.unparse(st.target) == counter and ast.unparse(st.value) == "1":
            skips.append(code)
        elif isinstance(st, ast.Assign) and ast.unparse(st.targets[0]) == flag and ast.unparse(st.value) == "True":
            recs.append(code)
        else:
            raise TranslateError(f"_reduce_statuses: unsupported case body `{ast.unparse(st)}`")
    final = body[3]
    tr_final = ExprTranslator({flag: "recovered", f"{counter} == len({arg})": "(numSkipped == len)", **names}, numeric="Nat")

    def chain(node) -> str:
        if isinstance(node, ast.If):
            if len(node.body) != 1 or not isinstance(node.body[0], ast.Return) or not node.orelse:
                raise TranslateError("_reduce_statuses: final if-chain does not return in every branch")
            els = node.orelse[0] if len(node.orelse) == 1 else None
            if els is None:
                raise TranslateError("_reduce_statuses: final if-chain has a compound else")
            return f"(if {tr_final.tr(node.test)} then {_status_of(node.body[0].value, nums, 'final')} else {chain(els)})"
        if isinstance(node, ast.Return):
            return str(_status_of(node.value, nums, "final"))
        raise TranslateError("_reduce_statuses: unexpected statement in the final if-chain")

    reduce_final = chain(final)
    ret_expr = "none"
    for code, r in reversed(rets):
        ret_expr = f"(if c == {code} then some {r} else {ret_expr})"
    skip_expr = " || ".join(f"c == {c}" for c in skips) or "false"
    rec_expr = " || ".join(f"c == {c}" for c in recs) or "false"
    # ---- BaseStep._get_status -----------------------------------------------------------------------------
    fn = parse_function(step_py, "_get_status", cls="BaseStep")
    sarg = fn.args.args[1].arg
    if len(fn.body) != 1 or not isinstance(fn.body[0], ast.If):
        raise TranslateError("_get_status: expected a single if-chain")
    any_empty = [n for n in find_nodes(fn.body[0], ast.Call) if isinstance(n.func, ast.Name) and n.func.id == "any"]
    if len(any_empty) != 1 or "empty()" not in ast.unparse(any_empty[0]) or "get_output_ports" not in ast.unparse(any_empty[0]):
        raise TranslateError("_get_status: the `any(p.empty() for p in self.get_output_ports().values())` test was not found")
    tr_gs = ExprTranslator({sarg: "c", ast.unparse(any_empty[0]): "anyEmpty", **names}, numeric="Nat")

    def gs(node) -> str:
        if isinstance(node, ast.If):
            if len(node.body) != 1 or not isinstance(node.body[0], ast.Return) or len(node.orelse) != 1:
                raise TranslateError("_get_status: if-chain does not return in every branch")
            return f"(if {tr_gs.tr(node.test)} then {tr_gs.tr(node.body[0].value)} else {gs(node.orelse[0])})"
        if isinstance(node, ast.Return):
            return tr_gs.tr(node.value)
        raise TranslateError("_get_status: unexpected statement")

    get_status = gs(fn.body[0])
    # ---- executor -----------------------------------------------------------------------------------------
    ex_py = os.path.join(repo, "streamflow/workflow/executor.py")
    wo = parse_function(ex_py, "_wait_outputs", cls="StreamFlowExecutor")
    tests = [n for n in find_nodes(wo, ast.Compare) if ast.unparse(n.left) == "token.value" and isinstance(n.ops[0], ast.In)]
    if len(tests) != 1:
        raise TranslateError("_wait_outputs: the test `token.value in (...)` was not found exactly once")
    cancel_on = ExprTranslator({"token.value": "c", **names}, numeric="Nat").tr(tests[0])
    run = parse_function(ex_py, "run", cls="StreamFlowExecutor")
    tests = [n for n in find_nodes(run, ast.Compare) if ast.unparse(n.left) == "step.status" and isinstance(n.ops[0], ast.In)]
    if len(tests) != 1:
        raise TranslateError("run: the test `step.status in [...]` was not found exactly once")
    final_bad = ExprTranslator({"step.status": "c", **names}, numeric="Nat").tr(tests[0])
    cancel = parse_function(ex_py, "_cancel", cls="StreamFlowExecutor")
    calls_close = any(ast.unparse(n.func) == "self.close" for n in find_nodes(cancel, ast.Call))
    sets_closed = any(isinstance(n, ast.Assign) and ast.unparse(n.targets[0]) == "self._closed" and ast.unparse(n.value) == "True"
                      for n in ast.walk(cancel))
    if not calls_close and not sets_closed:
        raise TranslateError("_cancel: neither `self.close()` nor `self._closed = True` found")
    close = parse_function(ex_py, "close", cls="StreamFlowExecutor")
    if "terminate(Status.CANCELLED)" not in ast.unparse(close):
        raise TranslateError("close: does not terminate the steps with Status.CANCELLED")
    # close() cancels and awaits the pending step tasks (`self.executions`); it may itself run inside one of them
    # (`_handle_exception` of a step whose run() raised): does the selection leave out `asyncio.current_task()`?
    comps = [c for c in ast.walk(close) if isinstance(c, (ast.ListComp, ast.GeneratorExp, ast.SetComp))
             and any(ast.unparse(g.iter) == "self.executions" for g in c.generators)]
    cancels_executions = bool(comps) and any(isinstance(n, ast.Call) and isinstance(n.func, ast.Attribute) and n.func.attr == "cancel"
                                             for n in ast.walk(close))
    cur_names = {ast.unparse(n.targets[0]) for n in ast.walk(close) if isinstance(n, ast.Assign)
                 and ast.unparse(n.value) == "asyncio.current_task()"} | {"asyncio.current_task()"}
    skips_current = bool(comps) and all(
        any(isinstance(t, ast.Compare) and isinstance(t.ops[0], ast.IsNot) and ast.unparse(t.left) == g.target.id
            and ast.unparse(t.comparators[0]) in cur_names
            for cond in g.ifs for t in ([cond] if not isinstance(cond, ast.BoolOp) or not isinstance(cond.op, ast.And) else cond.values))
        for c in comps for g in c.generators if ast.unparse(g.iter) == "self.executions" and isinstance(g.target, ast.Name))
    if any(ast.unparse(g.iter) == "self.executions" and not isinstance(g.target, ast.Name) for c in comps for g in c.generators):
        raise TranslateError("close: unexpected target in the comprehension over self.executions")
    close_self_safe = (not cancels_executions) or skips_current
    # ---- LoopCombinatorStep.run: does a FAILED / CANCELLED loop input stop the re-reading of terminated ports? ----
    lrun = parse_function(step_py, "run", cls="LoopCombinatorStep")
    src = ast.unparse(lrun)
    clears = "iteration_termination_checklist.get(task_name).clear()" in src and "token.value != Status.COMPLETED" in src
    if not clears:
        raise TranslateError("LoopCombinatorStep.run: the `if token.value != Status.COMPLETED: checklist.clear()` step was not found")
    fail_flags = [n for n in ast.walk(lrun) if isinstance(n, ast.If) and isinstance(n.test, ast.Compare)
                  and ast.unparse(n.test.left) == "token.value" and isinstance(n.test.ops[0], ast.In)
                  and any(isinstance(b, ast.Assign) and ast.unparse(b.value) == "True" for b in n.body)]
    loop_stops = False
    if fail_flags:
        flag_if = fail_flags[0]
        on = {_status_of(e, nums, "LoopCombinatorStep failure test") for e in flag_if.test.comparators[0].elts}
        flag_name = next(ast.unparse(b.targets[0]) for b in flag_if.body if isinstance(b, ast.Assign) and ast.unparse(b.value) == "True")
        cancels = any("cancel()" in ast.unparse(b) for b in flag_if.body)
        rearm_uses = any(isinstance(n, ast.BoolOp) and isinstance(n.op, ast.Or) and any(ast.unparse(v) == flag_name for v in n.values)
                         for n in ast.walk(lrun))
        if on != {nums["FAILED"], nums["CANCELLED"]} or not cancels or not rearm_uses:
            raise TranslateError("LoopCombinatorStep.run: a failure flag exists but not in the expected shape "
                                 "(FAILED/CANCELLED test, cancel of the terminated ports' reads, `failed or` in the re-read test)")
        loop_stops = True
    text = f"""/-! GENERATED by harness/sfv/translate/stepguards.py from streamflow/core/workflow.py, streamflow/workflow/step.py and
streamflow/workflow/executor.py — do not edit. Statuses are their `Status` numbers. -/
namespace SFV.Gen

def statusSkipped : Nat := {nums['SKIPPED']}
def statusCompleted : Nat := {nums['COMPLETED']}
def statusFailed : Nat := {nums['FAILED']}
def statusCancelled : Nat := {nums['CANCELLED']}
def statusRecovered : Nat := {nums['RECOVERED']}

/-- `_reduce_statuses`, loop body: the arms that `return` -/
def reduceRet (c : Nat) : Option Nat := {ret_expr}
/-- `_reduce_statuses`, loop body: the arms that count a skipped status -/
def reduceSkips (c : Nat) : Bool := {skip_expr}
/-- `_reduce_statuses`, loop body: the arms that set the recovered flag -/
def reduceRecovers (c : Nat) : Bool := {rec_expr}
/-- `_reduce_statuses`, the final if-chain -/
def reduceFinal (recovered : Bool) (numSkipped len : Nat) : Nat := {reduce_final}
/-- `BaseStep._get_status(status)`; `anyEmpty` = some output port is empty -/
def getStatusGen (c : Nat) (anyEmpty : Bool) : Nat := {get_status}
/-- `_wait_outputs`: termination statuses on which the executor cancels -/
def cancelOn (c : Nat) : Bool := {cancel_on}
/-- `run`: step statuses on which the executor raises -/
def finalBad (c : Nat) : Bool := {final_bad}
/-- `_cancel` terminates the steps (calls `self.close()`) instead of only setting `_closed` -/
def cancelCallsClose : Bool := {'true' if calls_close else 'false'}
/-- `close()` never cancels-and-awaits the task it is running in: it does not cancel the step tasks at all, or its selection
    of `self.executions` leaves out `asyncio.current_task()` -/
def closeSkipsCurrentTask : Bool := {'true' if close_self_safe else 'false'}
/-- `LoopCombinatorStep.run` stops re-reading terminated ports after a FAILED / CANCELLED termination on a loop input
    (flag set on exactly these statuses, pending reads of terminated ports cancelled, flag in the re-read test) -/
def loopStopsAfterFailure : Bool := {'true' if loop_stops else 'false'}

end SFV.Gen
"""
    return TARGET, text
