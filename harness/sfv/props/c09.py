"""C09 — database reads always reflect the latest writes (streamflow/persistence/sqlite.py)."""
from __future__ import annotations


import asyncio
import gc
import itertools
import json
import os
import random
import sqlite3

from streamflow.core.persistence import DependencyType
from streamflow.core.deployment import Target
from streamflow.core.workflow import Port, Step, Token, Workflow
from streamflow.persistence.sqlite import SqliteDatabase

from sfv.framework import Ctx, Property
from sfv.rt.loop import run_controlled
from sfv.translate import dbcache

DRIVER = "Drivers/C09.lean"

# table -> (add method, getter, update method or None, scalar column, json column or None, cached?)
TABLES = {
    "workflow": ("add_workflow", "get_workflow", "update_workflow", "name", "params", False),
    "deployment": ("add_deployment", "get_deployment", "update_deployment", "name", "config", True),
    "filter": ("add_filter", "get_filter", "update_filter", "name", "config", True),
    "port": ("add_port", "get_port", "update_port", "name", "params", True),
    "step": ("add_step", "get_step", "update_step", "name", "params", True),
    "target": ("add_target", "get_target", "update_target", "service", "params", True),
    "token": ("add_token", "get_token", None, "tag", "value", True),
    "execution": ("add_execution", "get_execution", "update_execution", "cmd", None, False),
}


JSON_COLS = {"workflow": ["params"], "deployment": ["config", "scheduling_policy", "wraps"], "filter": ["config"], "port": ["params"],
             "step": ["params"], "target": ["params"], "token": ["value"], "execution": []}


def plain_rows(path, sql, args, table):
    """independent uncached read: plain sqlite3 + json.loads, nothing of StreamFlow involved"""
    con = sqlite3.connect(path)
    con.row_factory = sqlite3.Row
    try:
        rows = []
        for r in con.execute(sql, args).fetchall():
            d = dict(r)
            for c in JSON_COLS[table]:
                d[c] = json.loads(d[c]) if d[c] else (None if c == "wraps" else d[c])
            if table == "token":
                d["recoverable"] = con.execute("SELECT 1 FROM recoverable WHERE id = ?", (d["id"],)).fetchone() is not None
            rows.append(d)
        return rows
    finally:
        con.close()


def plain_row(path, table, rid):
    rows = plain_rows(path, f"SELECT * FROM {table} WHERE id = ?", (rid,), table)
    return rows[0] if rows else None


# every other updatable column of a table, with a generator of new values (JSON columns get JSON text, as StreamFlow passes it)
OTHER_COLS = {
    "workflow": {"status": lambda v: v % 7, "type": lambda v: f"t{v}", "start_time": lambda v: v, "end_time": lambda v: v + 1},
    "deployment": {"type": lambda v: f"t{v}", "external": lambda v: v % 2, "lazy": lambda v: v % 2, "workdir": lambda v: f"/w{v}",
                   "scheduling_policy": lambda v: json.dumps({"p": [v]}), "wraps": lambda v: json.dumps({"deployment": f"d{v}"})},
    "filter": {"type": lambda v: f"t{v}"},
    "port": {"type": lambda v: f"t{v}"},
    "step": {"status": lambda v: v % 7, "type": lambda v: f"t{v}"},
    "target": {"locations": lambda v: v, "workdir": lambda v: f"/w{v}", "type": lambda v: f"t{v}"},
    "execution": {"status": lambda v: v % 7, "start_time": lambda v: v, "end_time": lambda v: v + 1},
}


class _Ctx:  # SqliteDatabase only reads context.config["path"] for relative connections
    config = {"path": "/"}


def jcol(items):
    return {"k": list(items), "deep": {"x": [1, 2], "y": {"z": [3]}}}


async def do_add(db, table, a, items, ids):
    """insert a row carrying the scalar `a` and the list `items`; returns the new id"""
    if table == "workflow":
        return await db.add_workflow(name=f"n{a}", params=jcol(items), status=0, type=Workflow)
    if table == "deployment":
        return await db.add_deployment(name=f"n{a}", type="local", config=jcol(items), external=False, lazy=True,
                                       scheduling_policy={"p": [1]}, workdir=None, wraps=None)
    if table == "filter":
        return await db.add_filter(name=f"n{a}", type="shuffle", config=jcol(items))
    if table == "port":
        return await db.add_port(name=f"n{a}", workflow_id=ids["workflow"][0], type=Port, params=jcol(items))
    if table == "step":
        return await db.add_step(name=f"n{a}", workflow_id=ids["workflow"][0], status=0, type=Step, params=jcol(items))
    if table == "target":
        return await db.add_target(deployment=ids["deployment"][0], type=Target, params=jcol(items), locations=1, service=f"n{a}")
    if table == "token":
        return await db.add_token(tag=f"n{a}", type=Token, value=jcol(items), port=ids["port"][0] if ids["port"] else None,
                                  recoverable=bool(a % 2))
    if table == "execution":
        return await db.add_execution(step_id=ids["step"][0], job_token_id=0, cmd=f"n{a}")
    raise ValueError(table)


def canon(table, row):
    """(scalar, items, rest-of-row) of a returned row, JSON-able"""
    if row is None:
        return None
    row = dict(row)
    _, _, _, sc, jc, _ = TABLES[table]
    a = row.get(sc)
    j = row.get(jc) if jc else None      # NOT normalised: a JSON column handed out as a string is a difference
    rest = {k: v for k, v in row.items() if k not in (sc, jc)}
    # a snapshot: the caller may mutate the row object later
    return json.loads(json.dumps([a, j, rest], sort_keys=True, default=str))


def model_view(table, c):
    """what the Lean driver prints for this row"""
    if c is None:
        return "TypeError"
    a, j, _ = c
    try:
        av = int(str(a)[1:])
    except ValueError:
        return f"?{a}"
    items = j["k"] if isinstance(j, dict) and isinstance(j.get("k"), list) else None
    if items is None:
        return f"{av}|?"
    return f"{av}|" + (",".join(map(str, items)) or "-")


EXH_ALPHABET = [("get",), ("upd", "scalar"), ("upd", "json"), ("upd", "both"), ("upd", "other"), ("mut", "top"), ("mut", "nested")]
EXH_TABLES = ["port", "step", "deployment", "filter", "target"]         # cached and updatable


def exhaustive_histories(maxlen: int, per_history: int, shift: int):
    """EVERY sequence of at most `maxlen` operations over EXH_ALPHABET (a mutation needs an earlier read) on a fresh row, closed by a
    read; `per_history` sequences share a database (each on its own row), the table rotates per sequence"""
    seqs = [q for n in range(1, maxlen + 1) for q in itertools.product(range(len(EXH_ALPHABET)), repeat=n)
            if all(EXH_ALPHABET[x][0] != "mut" or any(EXH_ALPHABET[y][0] == "get" for y in q[:i]) for i, x in enumerate(q))]
    for b in range(0, len(seqs), per_history):
        ops = [("add", "workflow", 1, [1]), ("add", "deployment", 2, [2]), ("add", "port", 3, [3]), ("add", "step", 4, [4])]
        counts = {"workflow": 1, "deployment": 1, "port": 1, "step": 1, "filter": 0, "target": 0}
        nout, v = 0, 100
        for k, q in enumerate(seqs[b: b + per_history]):
            t = EXH_TABLES[(b + k + shift) % len(EXH_TABLES)]
            counts[t] += 1
            rid = counts[t]
            ops.append(("add", t, 10 + k, [k, k + 1]))
            last = None
            for x in q:
                a = EXH_ALPHABET[x]
                v += 1
                if a[0] == "get":
                    ops.append(("get", t, rid))
                    last, nout = nout, nout + 1
                elif a[0] == "upd":
                    ops.append(("upd", t, rid, v, [v, v + 1], a[1]))
                else:
                    ops.append(("mut", a[1], last, 0, 200 + v % 100))
            ops.append(("get", t, rid))
            nout += 1
        h = History(random.Random(0), 0)
        h.ops = ops + [("sweep",)]
        yield h


class History:
    """random op history; generated up-front so that it can be replayed"""

    def __init__(self, rng: random.Random, nops: int):
        self.ops = []
        counts = {t: 0 for t in TABLES}
        for t in ("workflow", "deployment"):
            self.ops.append(("add", t, rng.randint(1, 9), [rng.randint(0, 9) for _ in range(rng.randint(0, 3))]))
            counts[t] += 1
        nout = nout2 = 0
        for _ in range(nops):
            r = rng.random()
            avail = [t for t in TABLES if counts[t] > 0]
            if r < 0.22:
                t = rng.choice(list(TABLES))
                if t in ("port", "step") and counts["workflow"] == 0:
                    t = "workflow"
                if t == "target" and counts["deployment"] == 0:
                    t = "deployment"
                if t == "execution" and counts["step"] == 0:
                    t = "step"
                self.ops.append(("add", t, rng.randint(1, 99), [rng.randint(0, 99) for _ in range(rng.randint(0, 3))]))
                counts[t] += 1
            elif r < 0.44:
                t = rng.choice([x for x in avail if TABLES[x][2]])
                rid = rng.randint(1, counts[t] + (1 if rng.random() < 0.05 else 0))
                self.ops.append(("upd", t, rid, rng.randint(100, 199), [rng.randint(100, 199) for _ in range(rng.randint(0, 3))],
                                 rng.choice(["both", "both", "scalar", "json", "other", "other"])))
            elif r < 0.74:
                t = rng.choice(avail)
                rid = rng.randint(1, counts[t] + (1 if rng.random() < 0.05 else 0))
                self.ops.append(("get", t, rid))
                nout += 1
            elif r < 0.8:
                self.ops.append(("sweep",))
            elif r < 0.86:
                kind = rng.choice(["workflow_steps", "workflow_ports", "workflows_by_name", "port_from_token"])
                tt = "token" if kind == "port_from_token" else "workflow"
                if counts[tt]:
                    self.ops.append(("getlist", kind, rng.randint(1, counts[tt])))
                    nout2 += 3
            elif r < 0.91 and nout2:
                self.ops.append(("mut2", rng.choice(["top", "nested", "append", "deep", "clear"]), rng.randrange(nout2), rng.randint(0, 2),
                                 rng.randint(300, 399)))
            elif nout:
                kind = rng.choice(["top", "nested", "nested", "append", "deep", "clear"])
                self.ops.append(("mut", kind, rng.randrange(nout), rng.randint(0, 2), rng.randint(200, 299)))
            else:
                self.ops.append(("sweep",))
        self.ops.append(("sweep",))


async def run_history(ops, path):
    """-> list of events: dicts with what was read through the caching object and through the uncached one"""
    db1 = SqliteDatabase(_Ctx(), connection=path)
    ids = {t: [] for t in TABLES}
    out = []          # (table, row object) handed out by db1, cached getters only (the model's `out`)
    out2 = []         # rows handed out by the getters that are not cached (not part of the model)
    events = []
    try:
        async def commit():
            async with db1.connection as conn:
                await conn.commit()

        async def read_both(t, rid):
            getter = TABLES[t][1]
            try:
                row1 = await getattr(db1, getter)(rid)
            except TypeError:
                row1 = None
            row2 = plain_row(path, t, rid)
            if TABLES[t][5] and row1 is not None:
                out.append((t, row1))
            elif t == "workflow" and row1 is not None:
                out2.append((t, row1))
            return {"op": "get", "table": t, "id": rid, "cached": canon(t, row1), "uncached": canon(t, row2), "counts": TABLES[t][5]}

        async def read_list(kind, rid):
            """the getters that are not cached and return decoded rows"""
            if kind == "workflow_steps":
                t, rows1 = "step", await db1.get_workflow_steps(rid)
                rows2 = plain_rows(path, "SELECT * FROM step WHERE workflow = ?", (rid,), t)
            elif kind == "workflow_ports":
                t, rows1 = "port", await db1.get_workflow_ports(rid)
                rows2 = plain_rows(path, "SELECT * FROM port WHERE workflow = ?", (rid,), t)
            elif kind == "workflows_by_name":
                t = "workflow"
                w = plain_row(path, t, rid)
                rows1 = await db1.get_workflows_by_name(w["name"]) if w else []
                rows2 = plain_rows(path, "SELECT * FROM workflow WHERE name = ? ORDER BY id desc", (w["name"],), t) if w else []
            else:
                t = "port"
                try:
                    rows1 = [await db1.get_port_from_token(rid)]
                except TypeError:
                    rows1 = []
                rows2 = plain_rows(path, "SELECT port.* FROM token JOIN port ON token.port = port.id WHERE token.id = ?", (rid,), t)
            for r in rows1:
                out2.append((t, r))
            return {"op": "getlist", "kind": kind, "id": rid, "table": t, "cached": [canon(t, r) for r in rows1],
                    "uncached": [canon(t, r) for r in rows2]}

        for op in ops:
            if op[0] == "add":
                _, t, a, items = op
                rid = await do_add(db1, t, a, items, ids)
                ids[t].append(rid)
                await commit()
                events.append({"op": "add", "table": t, "a": a, "items": items, "id": rid})
            elif op[0] == "upd":
                _, t, rid, a, items, what = op
                _, _, um, sc, jc, _ = TABLES[t]
                cur = plain_row(path, t, rid) if rid in ids[t] else None
                updates = {}
                new_a, new_items = None, None
                if cur is not None:
                    cc = canon(t, cur)
                    new_a, new_items = int(str(cc[0])[1:]), (cc[1]["k"] if cc[1] else [])
                if what == "other":
                    cols = sorted(OTHER_COLS[t])
                    for c in {cols[a % len(cols)], cols[(a // 7) % len(cols)]}:
                        updates[c] = OTHER_COLS[t][c](a)
                elif what in ("both", "scalar") or jc is None:
                    updates[sc] = f"n{a}"
                    new_a = a
                if what in ("both", "json") and jc is not None:
                    updates[jc] = json.dumps(jcol(items))
                    new_items = items
                await getattr(db1, um)(rid, updates)
                await commit()
                events.append({"op": "upd", "table": t, "id": rid, "a": new_a, "items": new_items, "exists": cur is not None})
            elif op[0] == "get":
                _, t, rid = op
                events.append(await read_both(t, rid))
            elif op[0] == "getlist":
                _, kind, rid = op
                events.append(await read_list(kind, rid))
            elif op[0] == "mut2":
                _, kind, j, k, v = op
                if j >= len(out2):
                    events.append({"op": "mut", "skipped": True})
                    continue
                t, row = out2[j]
                sc, jc = TABLES[t][3], TABLES[t][4]
                intact = isinstance(row.get(jc), dict) and isinstance(row[jc].get("k"), list) and "deep" in row[jc]
                if kind == "top":
                    row[sc] = f"n{v}"
                elif not intact:
                    events.append({"op": "mut", "skipped": True})
                    continue
                elif kind == "nested" and row[jc]["k"]:
                    row[jc]["k"][k % len(row[jc]["k"])] = v
                elif kind == "append":
                    row[jc]["k"].append(v)
                elif kind == "deep":
                    row[jc]["deep"]["y"]["z"].append(v)
                else:
                    row[jc].clear()
                events.append({"op": "mut", "kind": "uncached-getter:" + kind, "j": j, "table": t})
            elif op[0] == "sweep":
                for t in TABLES:
                    for rid in ids[t]:
                        events.append(await read_both(t, rid))
                for rid in ids["workflow"]:
                    events.append(await read_list("workflow_steps", rid))
                    events.append(await read_list("workflow_ports", rid))
                    events.append(await read_list("workflows_by_name", rid))
                for rid in ids["token"]:
                    events.append(await read_list("port_from_token", rid))
            elif op[0] == "mut":
                _, kind, j, k, v = op
                if j >= len(out):
                    events.append({"op": "mut", "skipped": True})
                    continue
                t, row = out[j]
                sc, jc = TABLES[t][3], TABLES[t][4]
                ev = {"op": "mut", "kind": kind, "j": j, "k": k, "v": v, "table": t}
                intact = bool(jc) and isinstance(row.get(jc), dict) and isinstance(row[jc].get("k"), list) and "deep" in row[jc]
                if kind != "top" and not intact:
                    ev["skipped"] = True
                elif kind == "top":
                    row[sc] = f"n{v}"
                    ev["model"] = f"mt {j} 0 {v}"
                elif kind == "nested" and jc and k < len(row[jc]["k"]):
                    row[jc]["k"][k] = v
                    ev["model"] = f"mn {j} 1 {k} {v}"
                elif kind == "append" and jc:
                    row[jc]["k"].append(v)           # not an operation of the model (it has no append): real code only
                elif kind == "deep" and jc:
                    row[jc]["deep"]["y"]["z"].append(v)
                    row[jc]["deep"]["x"][0] = v
                elif kind == "clear" and jc:
                    row[jc].clear()
                    ev["model"] = None
                else:
                    ev["skipped"] = True
                events.append(ev)
    finally:
        await db1.close()
    return events


async def run_overlap(table, path, order):
    """two calls in flight on the same row: a cached getter that misses and an update; then a read after both"""
    db = SqliteDatabase(_Ctx(), connection=path)
    ids = {t: [] for t in TABLES}
    try:
        for t in ("workflow", "deployment", "port"):
            ids[t].append(await do_add(db, t, 1, [1], ids))
        if t != table and not ids.get(table):
            ids[table].append(await do_add(db, table, 5, [7, 8], ids))
        rid = ids[table][0]
        _, getter, um, sc, _, _ = TABLES[table]
        calls = [getattr(db, getter)(rid), getattr(db, um)(rid, {sc: "n150"})]
        if order == "update-first":
            calls.reverse()
        during = await asyncio.gather(*[asyncio.ensure_future(c) for c in calls])
        after = await getattr(db, getter)(rid)
        async with db.connection as conn:
            await conn.commit()
        return {"table": table, "id": rid, "order": order, "during": canon(table, [d for d in during if isinstance(d, dict)][0]),
                "after": canon(table, after), "stored": canon(table, plain_row(path, table, rid))}
    finally:
        await db.close()


class C09(Property):
    pid = "C09"
    title = "Database reads always reflect the latest writes"
    lean_targets = ["SFV.Props.C09", "SFV.Model.Proto"]
    props_files = ["SFV/Props/C09.lean"]
    drivers = [DRIVER]
    translators = [dbcache.generate]
    rule = ("random operation histories (12..60 ops) over workflows, deployments, filters, ports, steps, targets, tokens and "
            "executions against a FILE database: add_*, update_* (scalar column, JSON column or both; existing and missing ids), "
            "get_* (existing and missing ids; also the getters that are not cached: get_workflow, get_execution, get_workflow_steps, "
            "get_workflow_ports, get_workflows_by_name, get_port_from_token), full sweeps reading every row, and mutations of rows "
            "returned earlier by cached and by uncached getters (top-level column, nested list item, append, deep nested, clear). "
            "Every read through the SqliteDatabase object is compared with an independent plain sqlite3 + json.loads read of the "
            "file (after a commit), and the cached getters also with the Lean state machine driven by the generated discipline "
            "table. Plus, outside the property's quantifier: a cached getter overlapping an update of the same row (FIFO and "
            "shuffled schedules). Non-trivial = distinct history containing an update or a mutation followed by a read.")
    trusted_base = [
        "translator harness/sfv/translate/dbcache.py (ast + SQL text patterns -> SFV/Gen/DbCache.lean); its output is re-checked "
        "by `dbcache_table_sound` and the model driven by it is compared with the real class on every run",
        "modelled, not verified: SQLite (a row inserted or updated is what later SELECTs by id return on the same connection; "
        "INTEGER PRIMARY KEY ids are fresh while nothing is deleted), cachebox (`cached` stores the computed value under the key "
        "and applies `postprocess` on hits and misses; LRUCache(maxsize=sys.maxsize) never evicts), json round trip",
        "rows are modelled with one scalar and one JSON container column (two levels of object identity)",
    ]
    technique = ("ast translator of the cache discipline + Lean 4 inductive invariant over a state machine with object identities, "
                 "driven by the generated table + differential correspondence on random histories against a file database")
    level_text = ("grade A: generated discipline table proved sound by `decide`; for every specification satisfying the discipline "
                  "and every history (inserts, updates, reads, caller mutations): cached row = stored row (cache_coherent), every read "
                  "= uncached read (get_eq_uncached), returned rows share no object with caches or earlier rows "
                  "(get_returns_fresh_copy, mutation_leaves_cache); reverting the deep copy or dropping a pop falsifies the statements "
                  "on concrete histories (shallow_copy_caught, missing_pop_caught)")
    level_note = ("Lean kernel, axioms within {propext, Classical.choice, Quot.sound}; sequential histories only (the property's "
                  "quantifier); SQLite and cachebox are modelled")
    assumptions = ["operations of a history do not overlap (each call is awaited before the next)"]
    quick_budget_s = 480          # real time (threads, database): generous under machine load
    min_nontrivial = 20

    def _check_history(self, ctx: Ctx, h: History, idx: int, lines, expect, meta):
        path = os.path.join(ctx.scratch, f"h{idx}.db")
        # The cyclic garbage collector must not run inside cachebox: a collection that starts while its native lock table is
        # being updated (`locks.setdefault_with` in `_wrappers.py`) was seen to block the main thread for good when many
        # event loops / database objects have been created and dropped, as this harness does. Collect between histories.
        gc.disable()
        try:
            events = run_controlled(lambda: run_history(h.ops, path), seed=ctx.seed + idx, timeout=120, shuffle=False)
        except TimeoutError:
            ctx.fail("db:hang", "history did not finish in 120 s", {"ops": h.ops})
            return
        finally:
            gc.enable()
            gc.collect()
            for suf in ("", "-wal", "-shm"):
                if os.path.exists(path + suf):
                    os.unlink(path + suf)
        lines.append("new")
        expect.append("ok")
        meta.append((h, "new"))
        touched, nontriv = set(), False
        for ev in events:
            if ev["op"] == "add":
                t = ev["table"]
                if TABLES[t][5] or t in ("workflow", "execution"):
                    name = TABLES[t][0]
                    lines.append(f"add {name} {ev['a']} {','.join(map(str, ev['items'])) or '-'}")
                    expect.append(str(ev["id"]))
                    meta.append((h, f"{name} id"))
                ctx.count("op:add")
            elif ev["op"] == "upd":
                t = ev["table"]
                ctx.count("op:update")
                touched.add((t, ev["id"]))
                if ev["exists"]:
                    lines.append(f"upd {TABLES[t][2]} {ev['id']} {ev['a']} {','.join(map(str, ev['items'] or [])) or '-'}")
                    expect.append("ok")
                    meta.append((h, "update"))
            elif ev["op"] == "mut":
                if ev.get("skipped"):
                    continue
                ctx.count("op:mutate:" + ev["kind"])
                touched.add(("out", ev["j"]))
                nontriv = True
                if ev.get("model"):
                    lines.append(ev["model"])
                    expect.append("ok")
                    meta.append((h, "mutation"))
            elif ev["op"] == "getlist":
                ctx.count("op:" + ev["kind"])
                if ev["cached"] != ev["uncached"]:
                    ctx.fail("read:uncached-getter-differs", f"get_{ev['kind']}({ev['id']}) returned {ev['cached']}, a plain sqlite3 read gives "
                             f"{ev['uncached']}", {"ops": h.ops, "getter": ev["kind"], "id": ev["id"]})
            elif ev["op"] == "get":
                t = ev["table"]
                ctx.count("op:get" + ("" if ev["counts"] else ":uncached-getter"))
                if (t, ev["id"]) in touched:
                    nontriv = True
                if ev["cached"] != ev["uncached"]:
                    mutated = any(o[0] == "mut" for o in h.ops)
                    updated = any(o[0] == "upd" and o[1] == t and o[2] == ev["id"] for o in h.ops)
                    key = "read:stale-after-update" if updated and not mutated else (
                        "cached-row:alias" if mutated and not updated else "read:differs-from-uncached")
                    ctx.fail(key, f"{TABLES[t][1]}({ev['id']}) returned {ev['cached']}, a plain sqlite3 read gives {ev['uncached']}",
                             {"ops": h.ops, "table": t, "id": ev["id"]})
                if ev["counts"]:
                    lines.append(f"get {TABLES[t][1]} {ev['id']}")
                    expect.append(model_view(t, ev["cached"]))
                    meta.append((h, f"{TABLES[t][1]}({ev['id']})"))
        ctx.case({"ops": [list(o) for o in h.ops[:10]], "events": len(events)}, ("h", repr(h.ops)) if nontriv else None, "history")

    def explore(self, ctx: Ctx) -> None:
        rng = ctx.rng
        lines, expect, meta = [], [], []
        n = 40 if ctx.tier == "quick" else 500
        if ctx.mode == "search":
            n *= 2
        # boundary histories first: read / mutate / read, update / read, on every cached table
        corpus = []
        for t in ("deployment", "filter", "port", "step", "target", "token"):
            ops = [("add", "workflow", 1, [1]), ("add", "deployment", 2, [2]), ("add", "port", 3, [3])]
            if t not in ("deployment", "port"):
                ops.append(("add", t, 5, [7, 8]))
            ops += [("get", t, 1), ("mut", "nested", 0, 0, 250), ("mut", "top", 0, 0, 251), ("get", t, 1), ("mut", "deep", 1, 0, 252),
                    ("mut", "append", 1, 0, 253), ("get", t, 1)]
            if TABLES[t][2]:
                ops += [("upd", t, 1, 150, [151], "both"), ("get", t, 1), ("upd", t, 1, 160, [], "scalar"), ("get", t, 1),
                        ("upd", t, 1, 0, [170, 171], "json"), ("get", t, 1), ("get", t, 9)]
            hh = History(random.Random(0), 0)
            hh.ops = ops + [("sweep",)]
            corpus.append(hh)
        for i, hh in enumerate(corpus):
            self._check_history(ctx, hh, i, lines, expect, meta)
            ctx.corpus_replayed += 1
        for i in range(n):
            if ctx.out_of_time():
                # real time (threads, a file database): under heavy machine load fewer histories fit into the budget
                ctx.extra["histories_run"] = i
                if i < 12:
                    ctx.extra["incomplete"] = True
                break
            if ctx.mode == "search" and ctx.failures:
                break                      # the search is for one concrete failing history
            h = History(rng, rng.randint(12, 45))
            self._check_history(ctx, h, 100 + i, lines, expect, meta)
        # ---- thorough tier: every short operation sequence on one row (bounded-exhaustive) ----
        if ctx.tier == "thorough" and ctx.mode == "check":
            for i, hh in enumerate(exhaustive_histories(4, 30, ctx.seed)):
                if ctx.out_of_time():
                    ctx.extra["exhaustive_incomplete"] = True
                    break
                self._check_history(ctx, hh, 10000 + i, lines, expect, meta)
                ctx.count("exhaustive-batches")
            else:
                ctx.extra["exhaustive"] = "all operation sequences of length <= 4 over get/upd(scalar,json,both,other)/mut(top,nested) on a fresh row"
        # ---- overlapping calls (outside the property's quantifier; reported under its own narrow key) ----
        for table in ("deployment", "filter", "port", "step", "target"):
            for order, shuffle, seed in (("get-first", False, 0), ("update-first", False, 0), ("get-first", True, 1), ("get-first", True, 2)):
                path = os.path.join(ctx.scratch, f"ov-{table}.db")
                gc.disable()
                try:
                    ev = run_controlled(lambda: run_overlap(table, path, order), seed=ctx.seed + seed, timeout=60, shuffle=shuffle)
                except TimeoutError:
                    ctx.fail("db:hang", f"overlapping get/update on {table} did not finish", {"overlap": [table, order, shuffle, seed]})
                    continue
                finally:
                    gc.enable()
                    gc.collect()
                    for suf in ("", "-wal", "-shm"):
                        if os.path.exists(path + suf):
                            os.unlink(path + suf)
                ctx.count("overlap:" + order + (":shuffled" if shuffle else ""))
                ctx.case({"op": "overlap", **ev}, ("overlap", table, order, shuffle, seed), "overlap")
                if ev["after"] != ev["stored"]:
                    ctx.fail("cache:stale-after-concurrent-get-update",
                             f"{TABLES[table][1]}({ev['id']}) overlapping {TABLES[table][2]} ({order}{', shuffled' if shuffle else ''}): a read "
                             f"after both returns {ev['after'][0]!r}, the table holds {ev['stored'][0]!r}",
                             {"overlap": [table, order, shuffle, seed]})
        got = ctx.lean(DRIVER, lines)
        seen = set()
        for gl, e, (h, what) in zip(got, expect, meta):
            if gl != e and id(h) not in seen:
                seen.add(id(h))
                ctx.disagree("model vs SqliteDatabase", f"{what}: code {e!r}, Lean model {gl!r}", {"ops": h.ops, "what": what})

    def replay(self, ctx: Ctx, data) -> None:
        r = data.get("replay") or (data.get("no_longer_checks") or [{}])[0].get("case") or {}
        if "overlap" in r:
            table, order, shuffle, seed = r["overlap"]
            path = os.path.join(ctx.scratch, "ov.db")
            ev = run_controlled(lambda: run_overlap(table, path, order), seed=seed, timeout=60, shuffle=shuffle)
            print(json.dumps(ev, indent=1))
            if ev["after"] != ev["stored"]:
                ctx.fail("cache:stale-after-concurrent-get-update", "a read after both calls returns the old row", r)
            return
        if "ops" not in r:
            return super().replay(ctx, data)
        h = History(random.Random(0), 0)
        h.ops = [tuple(o) for o in r["ops"]]
        path = os.path.join(ctx.scratch, "replay.db")
        events = run_controlled(lambda: run_history(h.ops, path), seed=0, timeout=120, shuffle=False)
        for ev in events:
            if ev["op"] == "get":
                flag = "" if ev["cached"] == ev["uncached"] else "   <-- DIFFERENT"
                print(f"get {ev['table']}({ev['id']}): cached {ev['cached']} | uncached {ev['uncached']}{flag}")
                if flag:
                    ctx.fail("read:differs-from-uncached", f"{ev['table']}({ev['id']})", r)
            else:
                print({k: v for k, v in ev.items() if k != "model"})



PROPERTY = C09()
