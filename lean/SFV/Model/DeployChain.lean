/-! # Executable model of `DefaultDeploymentManager` with wraps chains (streamflow/deployment/manager.py)

Requests are tasks; a task is a stack of frames (`deploy` → `_deploy` → `_inner_deploy` → `_deploy` …,
`undeploy` → `undeploy` …, `undeploy_all` → one child task per live deployment). An action resumes one task and runs
it up to its next suspension point (an unset event, a connector call, the `gather` of `undeploy_all`), exactly the
atomic segments of the asyncio code. The four maps are insertion-ordered association lists (iteration order of
`dict(self.deployments_map)` and of `self.dependency_graph.items()` is observable); events and dependants sets are heap
objects. Every map / event / set operation and connector call is appended to `ops`, which is what the correspondence
check compares with the instrumented real manager, segment by segment.

Not modelled: wrappers with `wraps = None` (implicit `__LOCAL__` deployment), uses of a lazy connector (part A). -/
namespace SFV.Chain

structure Dep where
  wraps : Option Nat
  lazy : Bool
  isWrap : Bool
deriving DecidableEq, Repr

/-- facts about the source (repairs), read by the translator -/
structure Cfg where
  /-- the dependants clean-up of `undeploy` is inside the `if len(...) == 0` branch (repair of finding 7) -/
  cleanupInside : Bool
  /-- `_deploy` sets the event when `_inner_deploy` raises (repair of finding 8) -/
  innerFailSetsEvent : Bool
  /-- `undeploy` sets the event object it cleared (repair of the premature-set race) -/
  ownEvent : Bool
deriving DecidableEq, Repr

inductive Op
  | cfgSet (n : Nat) | evNew (n : Nat) | dgNew (n : Nat) | depSet (n : Nat) | depDel (n : Nat) | depPop (n : Nat)
  | cfgDel (n : Nat) | dgDel (n : Nat) | depKeys
  | evSet (n : Nat) | evClear (n : Nat) | evPass (n : Nat) | evBlock (n : Nat)
  | depsAdd (owner x : Nat) | depsDiscard (owner x : Nat)
  | connDeployEnter (n : Nat) | connDeployExit (n : Nat) | connDeployFail (n : Nat)
  | connUndeployEnter (n : Nat) | connUndeployExit (n : Nat)
  | reqEnd (ok : Bool)
deriving DecidableEq, Repr

inductive DPhase | deploying | ok | failed
deriving DecidableEq, Repr
inductive UPhase | none | undeploying | done
deriving DecidableEq, Repr

structure Obj where
  name : Nat
  isFuture : Bool
  dep : DPhase
  und : UPhase
deriving DecidableEq, Repr

inductive FK | deployReq | deploy | inner | undeploy | undeployAll
deriving DecidableEq, Repr

structure Frame where
  kind : FK
  n : Nat
  pc : Nat
  a : Nat := 0                       -- object id (connector call in flight) / own event id
  rest : List (Nat × Nat) := []      -- undeploy: the snapshot of (name, set id) still to visit
deriving DecidableEq, Repr

inductive TSt
  | ready | blocked (e : Nat) | inCall | waitChildren | done (ok : Bool)
deriving DecidableEq, Repr

structure Task where
  stack : List Frame
  st : TSt
  parent : Option Nat := none
deriving DecidableEq, Repr

structure St where
  config : List Nat := []
  depmap : List (Nat × Nat) := []
  evmap : List (Nat × Nat) := []
  evs : List Bool := []
  dgmap : List (Nat × Nat) := []
  sets : List (List Nat) := []
  objs : List Obj := []
  tasks : List Task := []
  ops : List Op := []
deriving DecidableEq, Repr

/-! ### association lists with Python `dict` semantics -/
def lookup {α} : List (Nat × α) → Nat → Option α
  | [], _ => none
  | (k, v) :: r, n => if k = n then some v else lookup r n

def insert {α} : List (Nat × α) → Nat → α → List (Nat × α)
  | [], n, v => [(n, v)]
  | (k, w) :: r, n, v => if k = n then (k, v) :: r else (k, w) :: insert r n v

def delete {α} (l : List (Nat × α)) (n : Nat) : List (Nat × α) := l.filter (fun kv => kv.1 ≠ n)

def setAt {α} : List α → Nat → α → List α
  | [], _, _ => []
  | _ :: r, 0, v => v :: r
  | x :: r, i + 1, v => x :: setAt r i v

def remove (l : List Nat) (n : Nat) : List Nat := l.filter (fun x => x ≠ n)

def emit (s : St) (o : Op) : St := { s with ops := s.ops ++ [o] }

/-- `Event.set()` on object `e`: tasks blocked on it become ready -/
def setEvent (s : St) (e : Nat) : St :=
  { s with evs := setAt s.evs e true,
           tasks := s.tasks.map (fun t => if t.st = .blocked e then { t with st := .ready } else t) }

def evIsSet (s : St) (e : Nat) : Bool := s.evs.getD e false

inductive Sig | go | ret | raise
deriving DecidableEq, Repr

def setTask (s : St) (t : Nat) (f : Task → Task) : St :=
  { s with tasks := (s.tasks.zipIdx).map (fun (x, i) => if i = t then f x else x) }

def getTask (s : St) (t : Nat) : Task := s.tasks.getD t ⟨[], .done false, none⟩

def setStack (s : St) (t : Nat) (st : List Frame) : St := setTask s t (fun x => { x with stack := st })
def setSt (s : St) (t : Nat) (ts : TSt) : St := setTask s t (fun x => { x with st := ts })

/-- outcome of running the top frame one step: the new state and how to continue -/
inductive Next
  | cont (s : St) (sig : Sig)    -- keep executing this task
  | stop (s : St)                -- the task suspended (or finished)

def getDep (deps : List Dep) (n : Nat) : Dep := deps.getD n ⟨none, false, false⟩

/-- all children of `parent` are finished -/
def childrenDone (s : St) (parent : Nat) : Bool :=
  s.tasks.all (fun t => t.parent ≠ some parent || (match t.st with | .done _ => true | _ => false))
def childRaised (s : St) (parent : Nat) : Bool :=
  s.tasks.any (fun t => t.parent = some parent && t.st = .done false)

/-- one micro-step of task `t`: look at the top frame, its pc and the signal -/
def micro (c : Cfg) (deps : List Dep) (s : St) (t : Nat) (sig : Sig) : Next :=
  match (getTask s t).stack with
  | [] =>
      -- the request is over
      let ok := sig != .raise
      let s1 := setSt s t (.done ok)
      -- only requests log their end; the children of `undeploy_all` are plain tasks
      .stop (if (getTask s t).parent.isNone then emit s1 (.reqEnd ok) else s1)
  | fr :: below =>
    let pop (s : St) (sg : Sig) : Next := .cont (setStack s t below) sg
    let top (s : St) (f : Frame) : St := setStack s t (f :: below)
    let push (s : St) (f g : Frame) : St := setStack s t (g :: f :: below)
    match fr.kind with
    | .deployReq =>
        match sig, fr.pc with
        | .go, 0 => .cont (push s { fr with pc := 1 } ⟨.deploy, fr.n, 0, 0, []⟩) .go
        | .ret, _ =>
            match lookup s.dgmap fr.n with
            | some sid =>
                let s1 := emit { s with sets := setAt s.sets sid (remove (s.sets.getD sid []) fr.n ++ [fr.n]) } (.depsAdd fr.n fr.n)
                pop s1 .ret
            | none => pop s .raise
        | _, _ => pop s .raise
    | .deploy =>
        let n := fr.n
        let afterWait (s : St) : Next :=
          if (lookup s.depmap n).isNone then pop s .raise
          else if n ∈ s.config then pop s .ret
          else .cont (top s { fr with pc := 0 }) .go
        let afterInner (s : St) : Next :=
          if (getDep deps n).lazy then
            let o := s.objs.length
            let s1 := emit { s with objs := s.objs ++ [⟨n, true, .ok, .none⟩], depmap := insert s.depmap n o } (.depSet n)
            match lookup s1.evmap n with
            | some e => .cont (top (emit (setEvent s1 e) (.evSet n)) { fr with pc := 0 }) .go
            | none => pop s1 .raise
          else
            let o := s.objs.length
            let s1 := emit { s with objs := s.objs ++ [⟨n, false, .deploying, .none⟩], depmap := insert s.depmap n o } (.depSet n)
            .stop (setSt (top (emit s1 (.connDeployEnter n)) { fr with pc := 2, a := o }) t .inCall)
        match sig, fr.pc with
        | .go, 0 =>
            if n ∉ s.config then
              let e := s.evs.length
              let sid := s.sets.length
              let s1 := emit (emit (emit { s with config := s.config ++ [n], evmap := insert s.evmap n e, evs := s.evs ++ [false],
                                                   dgmap := insert s.dgmap n sid, sets := s.sets ++ [[]] } (.cfgSet n)) (.evNew n)) (.dgNew n)
              if (getDep deps n).isWrap then .cont (push s1 { fr with pc := 1 } ⟨.inner, n, 0, 0, []⟩) .go
              else afterInner s1
            else
              match lookup s.evmap n with
              | some e =>
                  if evIsSet s e then afterWait (emit s (.evPass n))
                  else .stop (setSt (top (emit s (.evBlock n)) { fr with pc := 3 }) t (.blocked e))
              | none => pop s .raise
        | .ret, 1 => afterInner s
        | .raise, 1 =>
            if c.innerFailSetsEvent then
              match lookup s.evmap n with
              | some e => pop (emit (setEvent s e) (.evSet n)) .raise
              | none => pop s .raise
            else pop s .raise
        | .ret, 2 =>   -- connector.deploy returned
            let o := fr.a
            let s1 := emit { s with objs := setAt s.objs o { (s.objs.getD o ⟨n, false, .failed, .done⟩) with dep := .ok } } (.connDeployExit n)
            match lookup s1.evmap n with
            | some e => pop (emit (setEvent s1 e) (.evSet n)) .ret
            | none => pop s1 .raise
        | .raise, 2 =>   -- connector.deploy raised
            let o := fr.a
            let s1 := emit { s with objs := setAt s.objs o { (s.objs.getD o ⟨n, false, .failed, .done⟩) with dep := .failed } } (.connDeployFail n)
            let s2 := emit { s1 with depmap := delete s1.depmap n } (.depPop n)
            -- `self.deployments_map.pop(name)` raises KeyError when a concurrent undeploy removed the entry: no `set()`
            if (lookup s1.depmap n).isNone then pop s2 .raise else
            match lookup s2.evmap n with
            | some e => pop (emit (setEvent s2 e) (.evSet n)) .raise
            | none => pop s2 .raise
        | .go, 3 => afterWait s
        | _, _ => pop s .raise
    | .inner =>
        let n := fr.n
        match (getDep deps n).wraps with
        | none => pop s .raise
        | some w =>
          let tail (s : St) : Next :=
            match lookup s.dgmap w with
            | some sid =>
                let s1 := emit { s with sets := setAt s.sets sid (remove (s.sets.getD sid []) n ++ [n]) } (.depsAdd w n)
                if (lookup s1.depmap w).isNone then pop s1 .raise else pop s1 .ret
            | none => pop s .raise
          let p1 (s : St) : Next :=
            match lookup s.depmap w with
            | none => pop s .raise
            | some o =>
                if (s.objs.getD o ⟨w, true, .ok, .none⟩).isFuture then tail s
                else if (getDep deps w).isWrap then .cont (push s { fr with pc := 2 } ⟨.inner, w, 0, 0, []⟩) .go
                else tail s
          match sig, fr.pc with
          | .go, 0 =>
              if w ∈ s.config then
                if (lookup s.depmap w).isNone then
                  match lookup s.evmap w with
                  | some e =>
                      if evIsSet s e then p1 (emit s (.evPass w))
                      else .stop (setSt (top (emit s (.evBlock w)) { fr with pc := 1 }) t (.blocked e))
                  | none => pop s .raise
                else p1 s
              else if w < deps.length then .cont (push s { fr with pc := 3 } ⟨.deploy, w, 0, 0, []⟩) .go
              else pop s .raise
          | .go, 1 => p1 s
          | .ret, _ => tail s
          | _, _ => pop s .raise
    | .undeploy =>
        let n := fr.n
        let loopInit (s : St) : Next :=
          .cont (top s { fr with pc := 3, rest := s.dgmap.filter (fun kv => kv.1 ≠ n) }) .go
        let afterUnd (s : St) (own : Nat) : Next :=
          let ev := if c.ownEvent then some own else lookup s.evmap n
          match ev with
          | some e =>
              let s1 := emit (setEvent s e) (.evSet n)
              if c.cleanupInside then loopInit s1 else loopInit s1
          | none => pop s .raise
        let body (s : St) : Next :=
          match lookup s.dgmap n with
          | none => pop s .raise
          | some sid =>
            let s1 := emit { s with sets := setAt s.sets sid (remove (s.sets.getD sid []) n) } (.depsDiscard n n)
            if (s1.sets.getD sid []).isEmpty then
              match lookup s1.evmap n with
              | none => pop s1 .raise
              | some e =>
                let s2 := emit { s1 with evs := setAt s1.evs e false } (.evClear n)
                match lookup s2.depmap n with
                | none => pop s2 .raise
                | some o =>
                  let dm' := delete s2.depmap n
                  let cf' := remove s2.config n
                  let dg' := delete s2.dgmap n
                  let s3 := emit (emit (emit { s2 with depmap := dm', config := cf', dgmap := dg' } (.depDel n)) (.cfgDel n)) (.dgDel n)
                  if (s3.objs.getD o ⟨n, true, .ok, .none⟩).isFuture then afterUnd s3 e
                  else
                    let s4 := emit { s3 with objs := setAt s3.objs o { (s3.objs.getD o ⟨n, false, .failed, .done⟩) with und := .undeploying } } (.connUndeployEnter n)
                    .stop (setSt (top s4 { fr with pc := 2, a := o, rest := [(e, 0)] }) t .inCall)
            else if c.cleanupInside then pop s1 .ret else loopInit s1
        match sig, fr.pc with
        | .go, 0 =>
            let s := emit s .depKeys
            if (lookup s.depmap n).isSome then
              match lookup s.evmap n with
              | some e =>
                  if evIsSet s e then body (emit s (.evPass n))
                  else .stop (setSt (top (emit s (.evBlock n)) { fr with pc := 1 }) t (.blocked e))
              | none => pop s .raise
            else pop s .ret
        | .go, 1 => body s
        | .ret, 2 =>
            let o := fr.a
            let own := match fr.rest with | (e, _) :: _ => e | [] => 0
            let s1 := emit { s with objs := setAt s.objs o { (s.objs.getD o ⟨n, false, .failed, .done⟩) with und := .done } } (.connUndeployExit n)
            afterUnd s1 own
        | .go, 3 | .ret, 3 =>
            match fr.rest with
            | [] => pop s .ret
            | (k, sid) :: r =>
                let s1 := emit { s with sets := setAt s.sets sid (remove (s.sets.getD sid []) n) } (.depsDiscard k n)
                if (s1.sets.getD sid []).isEmpty then
                  .cont (push s1 { fr with pc := 3, rest := r } ⟨.undeploy, k, 0, 0, []⟩) .go
                else .cont (top s1 { fr with pc := 3, rest := r }) .go
        | _, _ => pop s .raise
    | .undeployAll =>
        match sig, fr.pc with
        | .go, 0 =>
            let s := emit s .depKeys
            let names := s.depmap.map (·.1)
            if names.isEmpty then pop s .ret
            else
              let kids : List Task := names.map (fun k => ⟨[⟨.undeploy, k, 0, 0, []⟩], .ready, some t⟩)
              .stop (setSt (top { s with tasks := s.tasks ++ kids } { fr with pc := 1 }) t .waitChildren)
        | .go, 1 => if childRaised s t then pop s .raise else pop s .ret
        | _, _ => pop s .raise

/-- run task `t` until it suspends -/
def exec (c : Cfg) (deps : List Dep) : Nat → St → Nat → Sig → St
  | 0, s, _, _ => s
  | fuel + 1, s, t, sig =>
      match micro c deps s t sig with
      | .cont s' sig' => exec c deps fuel s' t sig'
      | .stop s' =>
          -- a finished child may complete the gather of its parent
          match (getTask s' t).st, (getTask s' t).parent with
          | .done ok, some p =>
              -- `asyncio.gather`: the first exception of a child is delivered at once, otherwise when all are done
              if (getTask s' p).st = .waitChildren && (!ok || childrenDone s' p) then setSt s' p .ready else s'
          | _, _ => s'

inductive Act
  | run (t : Nat)                 -- start / continue a ready task
  | callRet (t : Nat) (ok : Bool) -- the connector call `t` is suspended in returns / raises
deriving DecidableEq, Repr

def fuelOf (s : St) : Nat := 200 + 50 * s.tasks.length

def step (c : Cfg) (deps : List Dep) (s : St) : Act → Option St
  | .run t =>
      if (getTask s t).st = .ready ∧ t < s.tasks.length then some (exec c deps (fuelOf s) s t .go) else none
  | .callRet t ok =>
      if (getTask s t).st = .inCall then
        some (exec c deps (fuelOf s) (setSt s t .ready) t (if ok then .ret else .raise))
      else none

def runActs (c : Cfg) (deps : List Dep) (s : St) : List Act → Option St
  | [] => some s
  | a :: as => match step c deps s a with
    | some s' => runActs c deps s' as
    | none => none

/-- a request as a fresh task -/
inductive Req | deploy (n : Nat) | undeploy (n : Nat) | undeployAll
deriving DecidableEq, Repr

def Req.frame : Req → Frame
  | .deploy n => ⟨.deployReq, n, 0, 0, []⟩
  | .undeploy n => ⟨.undeploy, n, 0, 0, []⟩
  | .undeployAll => ⟨.undeployAll, 0, 0, 0, []⟩

def spawn (s : St) (r : Req) : St := { s with tasks := s.tasks ++ [⟨[r.frame], .ready, none⟩] }

def initWith (reqs : List Req) : St := reqs.foldl spawn {}

/-- connector calls, in order: the observable call log -/
def calls (s : St) : List Op :=
  s.ops.filter (fun o => match o with
    | .connDeployEnter _ | .connDeployExit _ | .connDeployFail _ | .connUndeployEnter _ | .connUndeployExit _ => true
    | _ => false)

/-- connector of deployment `n` is live in state `s`: deployed, `undeploy()` not yet entered -/
def liveNames (s : St) : List Nat :=
  (s.objs.filter (fun o => !o.isFuture && o.dep == .ok && o.und == .none)).map (·.name)

end SFV.Chain

namespace SFV.Chain

/-! ### bounded-exhaustive exploration of all schedules (for theorems about concrete scenarios) -/

/-- actions enabled in `s`; a deploy call may succeed or fail (`failing` = names whose deploy is allowed to fail) -/
def enabled (failing : List Nat) (s : St) : List Act :=
  (s.tasks.zipIdx).flatMap (fun (x, i) =>
    match x.st with
    | .ready => [Act.run i]
    | .inCall =>
        match x.stack with
        | fr :: _ => if fr.kind = .deploy ∧ fr.n ∈ failing then [Act.callRet i true, Act.callRet i false] else [Act.callRet i true]
        | [] => []
    | _ => [])

/-- a wrapped deployment is being / has been undeployed while a deployment wrapping it is live -/
def underLiveWrapper (deps : List Dep) (s : St) : Bool :=
  s.objs.any (fun d => !d.isFuture && d.und != .none &&
    s.objs.any (fun w => !w.isFuture && w.dep == .ok && w.und == .none && (getDep deps w.name).wraps == some d.name))

/-- nothing can move although some request is not finished -/
def stuck (s : St) : Bool :=
  s.tasks.any (fun t => match t.st with | .done _ => false | _ => true) &&
  s.tasks.all (fun t => match t.st with | .ready | .inCall => false | _ => true)

/-- every connector that was deployed successfully has been undeployed, each at most once -/
def allUndeployedOnce (s : St) : Bool :=
  s.objs.all (fun o => o.isFuture || o.dep != .ok || o.und == .done) &&
  (calls s).all (fun c => match c with
    | .connUndeployEnter n => ((calls s).filter (· == .connUndeployEnter n)).length ≤ ((calls s).filter (· == .connDeployExit n)).length
    | _ => true)

/-- DFS over all schedules: `inv` holds in every reachable state and `fin` in every state where nothing is enabled -/
def exploreAll (c : Cfg) (deps : List Dep) (failing : List Nat) (inv fin : St → Bool) : Nat → St → Bool
  | 0, _ => false
  | fuel + 1, s =>
      inv s &&
      (match enabled failing s with
       | [] => fin s
       | acts => acts.all (fun a => match step c deps s a with
           | some s' => exploreAll c deps failing inv fin fuel s'
           | none => false))

end SFV.Chain

namespace SFV.Chain
/-- per deployment at most one connector object is deploying-or-live -/
def atMostOneActive (s : St) : Bool :=
  (s.objs.zipIdx).all (fun (o, i) => (s.objs.zipIdx).all (fun (o', j) =>
    i == j || o.name != o'.name || o.isFuture || o'.isFuture ||
    !(o.dep != .failed && o.und == .none && o'.dep != .failed && o'.und == .none)))
end SFV.Chain
