"""C06 — loops emit the last / all iteration values in iteration order, for any count."""
from __future__ import annotations

import asyncio
import itertools
import random
from typing import Any

from streamflow.core.workflow import Status, Token
from streamflow.cwl.step import CWLLoopOutputAllStep, CWLLoopOutputLastStep
from streamflow.workflow.combinator import LoopCombinator
from streamflow.workflow.step import LoopCombinatorStep
from streamflow.workflow.token import IterationTerminationToken, ListToken, TerminationToken

from sfv.framework import Ctx, Property
from sfv.rt import stepdrive as sd
from sfv.rt.loop import run_controlled
from sfv.rt.sfctx import make_context
from sfv.translate import loopguards

COUNTS = [0, 1, 2, 9, 10, 11, 12, 15]
STATUSES = ["COMPLETED", "SKIPPED", "FAILED", "CANCELLED", "RECOVERED"]
PREFIXES = ["0", "0.0", "0.1", "0.2", "0.9", "0.10", "0.11", "0.3.1"]


def events_of(instances: list[dict]) -> list[list]:
    """per instance: data p.i (value) for i < n, then the iteration termination p.n"""
    evs = []
    for inst in instances:
        p, vals = inst["p"], inst["vals"]
        evs += [["d", f"{p}.{i}", v] for i, v in enumerate(vals)]
        if inst.get("iterterm", True):
            evs.append(["i", f"{p}.{len(vals)}"])
    return evs


class C06(Property):
    pid = "C06"
    title = "Loops emit the last/all iteration values in iteration order, for any count"
    lean_targets = ["SFV.Props.C06", "SFV.Model.Proto"]
    props_files = ["SFV/Props/C06.lean"]
    drivers = ["Drivers/C06.lean"]
    translators = [loopguards.generate]
    quick_budget_s = 300
    rule = ("REAL CWLLoopOutputAllStep / CWLLoopOutputLastStep wired with real Ports (in-memory context): 1..4 loop instances (scatter "
            "elements 0.0, 0.9, 0.10, … or the plain instance 0) with iteration counts 0..15 (always 0,1,9,10,11,12), body outputs p.i and "
            "IterationTerminationToken p.n of all instances shuffled on the step's input port (also in-order, reversed, termination-first, "
            "all permutations for <=5 tokens), termination token last; incomplete streams (missing iteration termination, FAILED, one-component tags) "
            "for model-vs-code only. REAL LoopCombinator driven through combine() with interleaved causal arrival sequences of several "
            "instances (1 and 2 ports); REAL LoopCombinatorStep: when it stops reading a port (iteration_termination_checklist). "
            "Every run is compared with the Lean model; complete streams against the property (exactly one output per instance, tag p, "
            "all values in iteration order / last value / None-or-[] for 0 iterations, step terminates after every instance emitted).")
    trusted_base = [
        "translator harness/sfv/translate/loopguards.py (numbering constants, emission test and its default, size_of, sort keys, exit test shape "
        "-> SFV/Gen/LoopGuards.lean)",
        "modelled, not verified: one FIFO input port whose termination token comes last (C03); Python's sorted() is stable (List.mergeSort); "
        "all(dict) iterates the keys; dict insertion order",
    ]
    technique = ("Lean 4 theorems about executable models of LoopCombinator._product, LoopOutputStep.run + CWL _process_output and the "
                 "LoopCombinatorStep checklist + ast translator of the guards + differential correspondence on the real classes")
    level_text = ("grade A: unbounded theorems — iteration numbering for every interleaving of instances, loop output for any arrival order of "
                  "p.0..p.(n-1) and the iteration termination p.n of any number of concurrent instances (all: index order, last: value n-1, n=0: []/None; "
                  "numeric order for n>=10), no termination before the port's termination token, checklist keeps the combinator step reading while an "
                  "instance iterates; guards regenerated each run; model compared with the real step classes")
    level_note = ("Lean kernel, axioms within {propext, Classical.choice, Quot.sound}; trusts the loopguards extractor and the single-FIFO-port "
                  "abstraction; end-to-end CWL loop documents are not part of this check (step-level K only)")
    assumptions = ["loop instance tags are non-empty (body outputs have at least two components), instances are pairwise distinct",
                   "the input port of the loop output step is FIFO and its termination token follows every other token (C03)"]

    # --------------------------------------------------------------------------------------------
    def explore(self, ctx: Ctx) -> None:
        seed = ctx.rng.randrange(1 << 30)
        self._lines, self._expect = [], []

        async def main():
            context = make_context(ctx.scratch)
            try:
                self._n = 0
                for case in self.cases(ctx):
                    if ctx.out_of_time():
                        ctx.extra["incomplete"] = True
                        break
                    await self.run_case(ctx, context, case)
            finally:
                await context.close()

        run_controlled(main, seed, timeout=max(30.0, ctx.time_left() + 60))
        got = ctx.lean("Drivers/C06.lean", self._lines)
        for g, (real, case) in zip(got, self._expect):
            if g != real:
                ctx.disagree(f"model vs {case['op']}", f"code {real!r}, Lean model {g!r}", case)

    def cases(self, ctx: Ctx):
        rng = ctx.rng
        wide = ctx.tier == "thorough" or ctx.mode == "search"
        # ---- loop output: boundary corpus ----
        for method in ("all", "last"):
            for n in COUNTS:
                for how in ("in-order", "reversed", "term-first", "shuffled"):
                    yield {"op": "loopout", "method": method, "instances": [{"p": "0.0", "vals": [10 * i + 1 for i in range(n)]}],
                           "how": how, "oseed": rng.randrange(1 << 30), "status": "COMPLETED"}
        # all permutations of small streams (two instances)
        for method in ("all", "last"):
            for na, nb in ([(0, 0), (1, 0), (1, 1), (2, 0), (2, 1), (3, 0)] + ([(2, 2), (3, 1), (4, 0)] if wide else [])):
                inst = [{"p": "0.9", "vals": list(range(na))}, {"p": "0.10", "vals": list(range(100, 100 + nb))}]
                evs = events_of(inst)
                for perm in itertools.permutations(range(len(evs))):
                    yield {"op": "loopout", "method": method, "instances": inst, "perm": list(perm), "status": "COMPLETED"}
        # random: 1..4 instances with different counts
        for _ in range(400 if wide else 60):
            k = rng.randint(1, 4)
            ps = rng.sample(PREFIXES, k)
            if "0" in ps and k > 1:     # the plain instance 0 and scatter instances 0.i do not coexist
                ps.remove("0")
            inst = [{"p": p, "vals": [rng.choice([rng.randint(0, 999), f"v{rng.randint(0, 99)}", [rng.randint(0, 9)], {"k": rng.randint(0, 9)}, None])
                                      for _ in range(rng.choice(COUNTS + list(range(3, 9)) + [13, 14]))]} for p in ps]
            yield {"op": "loopout", "method": rng.choice(["all", "last"]), "instances": inst, "how": "shuffled",
                   "oseed": rng.randrange(1 << 30), "status": "COMPLETED"}
        # incomplete / odd streams: model vs code only
        for _ in range(120 if wide else 30):
            k = rng.randint(1, 3)
            ps = rng.sample(PREFIXES[1:], k)
            inst = [{"p": p, "vals": list(range(rng.choice([0, 1, 2, 3, 11]))), "iterterm": rng.random() < 0.5} for p in ps]
            yield {"op": "loopout", "method": rng.choice(["all", "last"]), "instances": inst, "how": "shuffled", "oseed": rng.randrange(1 << 30),
                   "status": rng.choice(STATUSES), "partial": True,
                   "extra": rng.choice([None, None, ["i", f"{ps[0]}.1"], ["d", f"{ps[0]}.0", 77], ["i", "0.77.2"]])}
        for method in ("all", "last"):   # one-component tags: `all(termination_map)` meets the empty key -> the step never leaves its loop
            yield {"op": "loopout", "method": method, "instances": [], "raw": [["d", "3", 5]], "status": "COMPLETED", "partial": True, "hang_ok": True}
            yield {"op": "loopout", "method": method, "instances": [], "raw": [["d", "3", 5], ["i", "1"]], "status": "COMPLETED", "partial": True,
                   "hang_ok": True}
        # ---- numbering ----
        for _ in range(200 if wide else 40):
            k = rng.randint(1, 4)
            ps = rng.sample(PREFIXES, k)
            if "0" in ps and k > 1:
                ps.remove("0")
            yield {"op": "number", "instances": [{"p": p, "n": rng.choice([1, 2, 3, 10, 11, 12, 16])} for p in ps], "ports": rng.choice([1, 1, 2]),
                   "oseed": rng.randrange(1 << 30)}
        # ---- LoopCombinatorStep: when does it stop reading a port ----
        for _ in range(120 if wide else 30):
            k = rng.randint(1, 3)
            ps = rng.sample(PREFIXES[1:], k)
            yield {"op": "checklist", "instances": [{"p": p, "n": rng.choice([0, 1, 2, 3, 11])} for p in ps],
                   "term_at": rng.choice(["early", "middle", "late"]), "status": rng.choice(["COMPLETED", "COMPLETED", "FAILED", "CANCELLED"]),
                   "drop_iterterm": rng.random() < 0.2, "oseed": rng.randrange(1 << 30)}

    # --------------------------------------------------------------------------------------------
    async def run_case(self, ctx: Ctx, context, case: dict) -> None:
        try:
            await asyncio.wait_for(getattr(self, "_" + case["op"])(ctx, context, case), 90)
        except (sd.StepHang, asyncio.TimeoutError) as e:
            ctx.fail(f"{case['op']}:hang", f"the real code did not terminate: {e}", case)
        except Exception as e:  # noqa: BLE001
            ctx.fail(f"crash:{type(e).__name__}", f"the real code raised {e!r}", case)

    def _arrival(self, case: dict) -> list[list]:
        evs = events_of(case["instances"]) + [list(x) for x in case.get("raw", [])]
        if case.get("extra"):
            evs.append(list(case["extra"]))
        rng = random.Random(case.get("oseed", 0))
        if "perm" in case:
            return [evs[i] for i in case["perm"]]
        how = case.get("how", "in-order")
        if how == "reversed":
            evs.reverse()
        elif how == "term-first":
            evs.sort(key=lambda e: e[0] != "i")
        elif how == "shuffled":
            rng.shuffle(evs)
        return evs

    async def _loopout(self, ctx: Ctx, context, case: dict) -> None:
        self._n += 1
        wf = sd.new_workflow(context, f"c06-{self._n}")
        p_in, p_out = wf.create_port(), wf.create_port()
        cls = CWLLoopOutputAllStep if case["method"] == "all" else CWLLoopOutputLastStep
        step = wf.create_step(cls=cls, name="/l/x-loop-output")
        step.add_input_port("x", p_in)
        step.add_output_port("x", p_out)
        await wf.save(context.database)
        arrival = self._arrival(case)
        toks, ids, words = [], {}, []
        for e in arrival:
            if e[0] == "d":
                t = Token(value={"uid": len(ids), "v": e[2]}, tag=e[1])   # uid: lets a retagged copy be traced to its source
                ids[id(t)] = len(ids)
                toks.append(t)
                words.append(f"d:{e[1]}:{ids[id(t)]}")
            else:
                toks.append(IterationTerminationToken(tag=e[1]))
                words.append(f"i:{e[1]}")
        await sd.save_tokens(context, p_in, [t for t in toks if not isinstance(t, IterationTerminationToken)])
        feed = [("x", t) for t in toks] + [("x", TerminationToken(Status[case["status"]]))]
        words.append(f"t:{case['status']}")
        hung = False
        try:
            await sd.drive(step, feed, imposed=False, budget_s=2.0 if case.get("hang_ok") else 30.0)
        except sd.StepHang:
            if not case.get("hang_ok"):
                raise
            hung = True
        out = list(p_out.token_list)
        self._lines.append(f"loopout {case['method']} " + " ".join(words))
        self._expect.append((self._render(out, ids, hung), case))
        if not case.get("partial"):
            self._monitor(ctx, case, out)
        nmax = max([len(i["vals"]) for i in case["instances"]], default=0)
        ctx.case({"case": case, "out": [sd.untoken(t) for t in out][:3]},
                 ("loopout", case["method"], tuple(words)) if nmax >= 2 or len(case["instances"]) > 1 else None,
                 f"loopout-{case['method']}" + ("-partial" if case.get("partial") else ""))
        ctx.count("count>=10" if nmax >= 10 else "count<10")

    @staticmethod
    def _render(out: list[Token], ids: dict, hung: bool) -> str:
        parts, term = [], "-"
        for i, t in enumerate(out):
            tag = t.tag if t.tag != "" else "~"
            if isinstance(t, TerminationToken):
                term = t.value.name if i == len(out) - 1 else "MISPLACED"
            elif isinstance(t, ListToken):
                parts.append(f"{tag}[" + ",".join(f"{e.tag}:{ids.get(id(e), '?')}" for e in t.value) + "]")
            else:
                # CWLLoopOutputLastStep retags a copy of the last token: its value carries the uid of the source
                parts.append(f"{tag}=" + ("None" if t.value is None else str(t.value.get("uid", "?")) if isinstance(t.value, dict) else "?"))
        if hung:
            term = "-"
        return (";".join(parts) or "-") + "|term=" + term

    def _monitor(self, ctx: Ctx, case: dict, out: list[Token]) -> None:
        """exactly one output per instance, tagged p; all: values in iteration order; last: value n-1 (None when n=0);
        the termination token comes after every instance's output"""
        if not out or not isinstance(out[-1], TerminationToken) or sum(isinstance(t, TerminationToken) for t in out) != 1:
            ctx.fail("loopout:termination", f"output port does not end with exactly one termination token: {[sd.untoken(t) for t in out][-3:]}", case)
            return
        by_tag: dict = {}
        for t in out[:-1]:
            by_tag.setdefault(t.tag, []).append(t)
        for inst in case["instances"]:
            p, vals = inst["p"], inst["vals"]
            got = by_tag.pop(p, [])
            if len(got) != 1:
                ctx.fail("loopout:never-emitted" if not got else "loopout:emitted-more-than-once",
                         f"{len(got)} outputs for instance {p} with {len(vals)} iterations (expected exactly one)", case)
                continue
            g = got[0]
            if case["method"] == "all":
                exp = ["L", p, [["T", f"{p}.{i}", v] for i, v in enumerate(vals)]]
                real = _strip(sd.untoken(g))
                if real != exp:
                    same_set = real[0] == "L" and sorted(map(repr, real[2])) == sorted(map(repr, exp[2]))
                    ctx.fail(("loopout:all:wrong-order" + (":count>=11" if len(vals) >= 11 else "")) if same_set else "loopout:all:wrong-content",
                             f"instance {p}: got {real!r:.300}, expected {exp!r:.300}", case)
            else:
                exp = ["T", p, vals[-1] if vals else None]
                real = _strip(sd.untoken(g)) if vals else sd.untoken(g)
                if real != exp:
                    ctx.fail("loopout:last:wrong-value" + (":count>=11" if len(vals) >= 11 else ""),
                             f"instance {p} ({len(vals)} iterations): got {real!r:.200}, expected {exp!r:.200}", case)
        if by_tag:
            ctx.fail("loopout:unexpected-output", f"outputs with unexpected tags {sorted(by_tag)}", case)
        if out[-1].value != Status.COMPLETED:
            ctx.fail("loopout:status", f"termination status {out[-1].value.name} on a complete stream", case)

    # --------------------------------------------------------------------------------------------
    async def _number(self, ctx: Ctx, context, case: dict) -> None:
        self._n += 1
        rng = random.Random(case["oseed"])
        wf = sd.new_workflow(context, f"c06n-{self._n}")
        comb = LoopCombinator(name="lc", workflow=wf)
        ports = ["x", "y"][: case["ports"]]
        for pn in ports:
            comb.add_item(pn)
        # causal sequences: instance p sends p, then (after the body ran on p.k) p.k
        pending = {i["p"]: [i["p"]] + [None] * (i["n"] - 1) for i in case["instances"]}
        produced = {i["p"]: [] for i in case["instances"]}
        joins, outs = [], []
        while any(pending.values()):
            p = rng.choice([q for q, v in pending.items() if v])
            nxt = pending[p].pop(0)
            tag = nxt if nxt is not None else produced[p][-1]
            order = list(ports)
            rng.shuffle(order)
            emitted = []
            for pn in order:
                async for schema in comb.combine(pn, Token(value=f"{pn}@{tag}", tag=tag)):
                    tags = {t["token"].tag for t in schema.values()}
                    if len(tags) != 1 or set(schema) != set(ports):
                        ctx.fail("number:schema", f"schema {[(k, v['token'].tag) for k, v in schema.items()]}", case)
                    emitted.append(next(iter(tags)))
            if len(emitted) != 1:
                ctx.fail("number:emissions", f"arrival of {tag} on every port produced {len(emitted)} combinations", case)
                return
            joins.append(tag)
            outs.append(emitted[0])
            produced[p].append(emitted[0])
        for i in case["instances"]:
            exp = [f"{i['p']}.{k}" for k in range(i["n"])]
            if produced[i["p"]] != exp:
                ctx.fail("number:wrong-tags", f"instance {i['p']}: iterations tagged {produced[i['p']]}, expected {exp}", case)
        self._lines.append("number " + " ".join(joins))
        self._expect.append((" ".join(outs) or "-", case))
        ctx.case({"case": case, "joins": joins[:8], "outs": outs[:8]}, ("number", tuple(joins)), "number")

    # --------------------------------------------------------------------------------------------
    async def _checklist(self, ctx: Ctx, context, case: dict) -> None:
        """drive a real LoopCombinatorStep (one port): external inputs p, back-edge tokens p.k, IterationTerminationToken p,
        and the port's TerminationToken somewhere in between; after every token: has the step terminated?"""
        self._n += 1
        rng = random.Random(case["oseed"])
        wf = sd.new_workflow(context, f"c06c-{self._n}")
        p_in, p_out = wf.create_port(), wf.create_port()
        comb = LoopCombinator(name="lc", workflow=wf)
        comb.add_item("x")
        step = wf.create_step(cls=LoopCombinatorStep, name="/l-loop-combinator", combinator=comb)
        step.add_input_port("x", p_in)
        step.add_output_port("x", p_out)
        await wf.save(context.database)
        # per instance causal sequence: d:p, d:p.0 … d:p.(n-1) (back edges), i:p
        seqs = {}
        for i in case["instances"]:
            s = [["d", i["p"]]] + [["d", f"{i['p']}.{k}"] for k in range(i["n"])]
            if not (case["drop_iterterm"] and i is case["instances"][0]):
                s.append(["i", i["p"]])
            seqs[i["p"]] = s
        merged = []
        while any(seqs.values()):
            p = rng.choice([q for q, v in seqs.items() if v])
            merged.append(seqs[p].pop(0))
        # the port's termination token follows every external input (FIFO): it can only precede back-edge / iteration-termination tokens
        starts = [k for k, e in enumerate(merged) if e[0] == "d" and e[1] in [i["p"] for i in case["instances"]]]
        lo = (max(starts) + 1) if starts else 0
        pos = {"early": lo, "middle": (lo + len(merged) + 1) // 2, "late": len(merged)}[case["term_at"]]
        merged.insert(pos, ["t", case["status"]])
        task = asyncio.create_task(step.run())
        trace, words = [], []
        try:
            await sd.settle(step, task, ["x"])
            for e in merged:
                if e[0] == "d":
                    tok = Token(value=e[1], tag=e[1])
                    await tok.save(context.database, p_in.persistent_id)
                elif e[0] == "i":
                    tok = IterationTerminationToken(tag=e[1])
                else:
                    tok = TerminationToken(Status[e[1]])
                words.append(":".join(e))
                if task.done():
                    trace.append("x")
                    continue
                p_in.put(tok)
                for _ in range(sd.TERM_SPINS):
                    await asyncio.sleep(0)
                await sd.settle(step, task, ["x"], budget_s=5.0) if not task.done() else None
                for _ in range(200):
                    if task.done():
                        break
                    await asyncio.sleep(0.001 if _ % 20 == 19 else 0)
                    if sd._idle(step, ["x"]):
                        break
                trace.append("x" if task.done() else "r")
            if task.done():
                task.result()
        finally:
            if not task.done():
                task.cancel()
                try:
                    await task
                except BaseException:  # noqa: BLE001
                    pass
        # the property: the step must not terminate while an instance is still iterating (its iteration termination not yet received)
        open_inst: set = set()
        for e, tr in zip(merged, trace):
            if e[0] == "d" and e[1] in [i["p"] for i in case["instances"]]:
                open_inst.add(e[1])
            elif e[0] == "i":
                open_inst.discard(e[1])
            if tr == "x" and open_inst and case["status"] == "COMPLETED" and not case["drop_iterterm"]:
                ctx.fail("checklist:terminated-while-iterating", f"step stopped reading after {e} while instances {sorted(open_inst)} are iterating", case)
                break
        self._lines.append("checklist " + " ".join(words))
        self._expect.append(("".join(trace) or "-", case))
        ctx.case({"case": case, "events": words[:10], "trace": "".join(trace)}, ("checklist", tuple(words)), "checklist")

    # --------------------------------------------------------------------------------------------
    def replay(self, ctx: Ctx, data) -> None:
        case = data.get("replay") or (data.get("no_longer_checks") or [{}])[0].get("case")
        if not isinstance(case, dict) or "op" not in case:
            return super().replay(ctx, data)
        self._lines, self._expect, self._n = [], [], 0

        async def main():
            context = make_context(ctx.scratch)
            try:
                await self.run_case(ctx, context, case)
            finally:
                await context.close()

        run_controlled(main, data.get("seed", 0), timeout=120)
        got = ctx.lean("Drivers/C06.lean", self._lines)
        for ln, g, (real, c) in zip(self._lines, got, self._expect):
            print(f"{ln[:500]}\n   real : {real[:600]}\n   model: {g[:600]}")
            if g != real:
                ctx.disagree("model vs code", f"code {real!r}, model {g!r}", c)


def _strip(u):
    """remove the uid wrapper the harness puts around every data value"""
    if isinstance(u, list) and len(u) == 3 and u[0] == "L":
        return ["L", u[1], [_strip(x) for x in u[2]]]
    if isinstance(u, list) and len(u) == 3 and isinstance(u[2], dict) and set(u[2]) == {"uid", "v"}:
        return [u[0], u[1], u[2]["v"]]
    return u


PROPERTY = C06()
