import SFV.Lemmas.Exec
/-! Statuses the steps end with in failing runs of the executor protocol (C04): helper definitions and lemmas.
The property theorems are in `SFV/Props/C04Status.lean`. -/
namespace SFV.Exec

/-! ## Statuses: `reduce`, `getStatus` -/

theorem bad_true_iff (x : Status) : x.bad = true ↔ x = .failed ∨ x = .cancelled := by
  cases x <;> simp [Status.bad]

/-- a FAILED / CANCELLED result of `reduce` is one of the reduced statuses -/
theorem reduce_mem_of_bad (l : List Status) (h : (reduce l).bad = true) : reduce l ∈ l := by
  cases hf : l.find? Status.bad with
  | some z =>
    have e : reduce l = z := by simp only [reduce, hf]
    rw [e]; exact List.mem_of_find?_eq_some hf
  | none =>
    have e : (reduce l).bad = false := by
      simp only [reduce, hf]; split <;> rfl
    rw [e] at h; cases h

/-- `reduce` is FAILED / CANCELLED as soon as one of the reduced statuses is -/
theorem reduce_bad_of_mem (l : List Status) {x : Status} (hx : x ∈ l) (hb : x.bad = true) :
    (reduce l).bad = true := by
  cases hf : l.find? Status.bad with
  | some z =>
    have e : reduce l = z := by simp only [reduce, hf]
    rw [e]; exact List.find?_some hf
  | none => exact absurd hb (List.find?_eq_none.mp hf x hx)

/-- `reduce` is FAILED / CANCELLED iff one of the reduced statuses is -/
theorem reduce_bad_iff (l : List Status) : (reduce l).bad = true ↔ ∃ x ∈ l, x.bad = true :=
  ⟨fun h => ⟨_, reduce_mem_of_bad l h, h⟩, fun ⟨_, hx, hb⟩ => reduce_bad_of_mem l hx hb⟩

theorem getStatus_failed (e : Bool) : getStatus .failed e = .failed := by
  cases e <;> rfl

theorem getStatus_eq_cancelled {x : Status} {e : Bool} (h : getStatus x e = .cancelled) : x = .cancelled := by
  cases x <;> cases e <;> first | rfl | cases h

/-- `_get_status` can turn CANCELLED into SKIPPED (a step with an empty output port) -/
theorem getStatus_cancelled_true : getStatus .cancelled true = .skipped := rfl

/-! ## The status a step ends with when it terminates by itself -/

/-- the termination statuses a step sees on its input ports (a source port counts as COMPLETED) -/
def inTerms (N : ENet) (s : St) (i : Nat) : List Status :=
  (N.ins i).map (fun p => match p with
    | none => Status.completed
    | some j => (s.st j).getD .completed)

theorem finishStatus_eq (N : ENet) (s : St) (i : Nat) :
    finishStatus N s i =
      getStatus (if reduce (inTerms N s i) == .skipped && N.dataIn i then .completed else reduce (inTerms N s i))
        (N.emptyOut i) := rfl

theorem mem_inTerms_of_pred {N : ENet} {s : St} {i p : Nat} {y : Status} (hp : p ∈ N.preds i)
    (hy : s.st p = some y) : y ∈ inTerms N s i :=
  List.mem_map.mpr ⟨some p, mem_preds.mp hp, by simp only [hy]; rfl⟩

theorem mem_inTerms {N : ENet} {s : St} {i : Nat} {x : Status} (hx : x ∈ inTerms N s i) :
    x = .completed ∨ ∃ p, p ∈ N.preds i ∧ s.st p = some x := by
  obtain ⟨q, hq, rfl⟩ := List.mem_map.mp hx
  cases q with
  | none => exact Or.inl rfl
  | some j =>
    cases hj : s.st j with
    | none => left; simp only [hj]; rfl
    | some y => right; exact ⟨j, mem_preds.mpr hq, by simp only [hj]; rfl⟩

/-- a step that terminates by itself ends CANCELLED only if one of its producers is CANCELLED -/
theorem finishStatus_cancelled {N : ENet} {s : St} {i : Nat} (h : finishStatus N s i = .cancelled) :
    ∃ p, p ∈ N.preds i ∧ s.st p = some .cancelled := by
  rw [finishStatus_eq] at h
  have h1 := getStatus_eq_cancelled h
  split at h1
  · cases h1
  · have hm := reduce_mem_of_bad (inTerms N s i) (by rw [h1]; rfl)
    rw [h1] at hm
    rcases mem_inTerms hm with e | e
    · cases e
    · exact e

/-- with no CANCELLED producer, a FAILED producer makes the step end FAILED -/
theorem finishStatus_failed_of_pred {N : ENet} {s : St} {i p : Nat}
    (hnc : ∀ q ∈ N.preds i, s.st q ≠ some .cancelled) (hp : p ∈ N.preds i) (hf : s.st p = some .failed) :
    finishStatus N s i = .failed := by
  have hb := reduce_bad_of_mem (inTerms N s i) (mem_inTerms_of_pred hp hf) rfl
  have hr : reduce (inTerms N s i) = .failed := by
    rcases mem_inTerms (reduce_mem_of_bad _ hb) with e | ⟨q, hq, hs⟩
    · rw [e] at hb; cases hb
    · rcases (bad_true_iff _).mp hb with e | e
      · exact e
      · rw [e] at hs; exact absurd hs (hnc q hq)
  rw [finishStatus_eq, hr]
  cases N.dataIn i <;> cases N.emptyOut i <;> rfl

/-- with no CANCELLED producer, a step that ends COMPLETED / SKIPPED by itself has no FAILED producer -/
theorem finishStatus_good_preds {N : ENet} {s : St} {i : Nat} (hg : (finishStatus N s i).bad = false)
    (hnc : ∀ q ∈ N.preds i, s.st q ≠ some .cancelled) :
    ∀ p ∈ N.preds i, ∀ y, s.st p = some y → y.bad = false := by
  intro p hp y hy
  cases hb : y.bad with
  | false => rfl
  | true =>
    rcases (bad_true_iff y).mp hb with e | e
    · subst e
      rw [finishStatus_failed_of_pred hnc hp hy] at hg; cases hg
    · subst e
      exact absurd hy (hnc p hp)

/-! ## A status once set never changes -/

theorem step_st_stable {fx : Bool} {N : ENet} {s s' : St} {a : Act} (h : step fx N s a = some s')
    {i : Nat} {x : Status} (hx : s.st i = some x) : s'.st i = some x := by
  cases a with
  | finish j =>
    obtain ⟨_, hn, _, rfl⟩ := step_finish_some h
    have : i ≠ j := by intro e; subst e; rw [hn] at hx; cases hx
    simp only [setSt_st, if_neg this, hx]
  | fail j =>
    obtain ⟨_, hn, rfl⟩ := step_fail_some h
    have : i ≠ j := by intro e; subst e; rw [hn] at hx; cases hx
    simp only [setSt_st, if_neg this, hx]
  | read k =>
    obtain ⟨_, _, o, y, _, _, h5⟩ := step_read_some h
    rcases h5 with ⟨_, _, rfl⟩ | ⟨_, _, rfl⟩ | ⟨_, _, rfl⟩ | ⟨_, _, rfl⟩
    · exact closeAll_st_of_some _ i x hx
    · exact hx
    · exact closeAll_st_of_some _ i x hx
    · exact hx
  | final =>
    obtain ⟨_, h5⟩ := step_final_some h
    rcases h5 with ⟨_, rfl⟩ | ⟨_, rfl⟩ <;> exact hx

theorem runActs_st_stable {fx : Bool} {N : ENet} {s s' : St} {acts : List Act}
    (h : runActs fx N s acts = some s') {i : Nat} {x : Status} (hx : s.st i = some x) : s'.st i = some x :=
  runActs_inv (P := fun t => t.st i = some x) (A := fun _ => True) (fun _ _ _ hp _ hs => step_st_stable hs hp)
    acts s s' hx (fun _ _ => trivial) h

/-! ## CANCELLED only comes from `close()` -/

/-- as soon as one step is CANCELLED every step is terminated and the executor has left its collecting loop -/
def CInv (s : St) : Prop :=
  ∀ i, s.st i = some .cancelled → (∀ j, (s.st j).isSome = true) ∧ s.pc ≠ .running

theorem cinv_init : CInv St.init := by
  intro i h; cases h

theorem cinv_closeAll (t : St) : CInv t.closeAll :=
  fun _ _ => ⟨fun j => closeAll_st_isSome t j, by simp⟩

theorem cinv_step {fx : Bool} {N : ENet} {s s' : St} {a : Act} (hC : CInv s) (hs : step fx N s a = some s') :
    CInv s' := by
  cases a with
  | finish i =>
    obtain ⟨_, hn, _, rfl⟩ := step_finish_some hs
    intro k hk
    simp only [setSt_st] at hk
    by_cases e : k = i
    · rw [if_pos e] at hk
      obtain ⟨p, _, hpc⟩ := finishStatus_cancelled (Option.some.inj hk)
      have := (hC p hpc).1 i
      rw [hn] at this; cases this
    · rw [if_neg e] at hk
      have := (hC k hk).1 i
      rw [hn] at this; cases this
  | fail i =>
    obtain ⟨_, hn, rfl⟩ := step_fail_some hs
    intro k hk
    simp only [setSt_st] at hk
    by_cases e : k = i
    · rw [if_pos e] at hk; cases hk
    · rw [if_neg e] at hk
      have := (hC k hk).1 i
      rw [hn] at this; cases this
  | read k =>
    obtain ⟨hp, _, o, x, _, _, h5⟩ := step_read_some hs
    rcases h5 with ⟨_, _, rfl⟩ | ⟨_, _, rfl⟩ | ⟨_, _, rfl⟩ | ⟨_, _, rfl⟩
    · exact cinv_closeAll _
    · intro j hj; exact absurd hp (hC j hj).2
    · exact cinv_closeAll _
    · intro j hj; exact absurd hp (hC j hj).2
  | final =>
    obtain ⟨_, h5⟩ := step_final_some hs
    rcases h5 with ⟨_, rfl⟩ | ⟨_, rfl⟩ <;> exact fun j hj => ⟨(hC j hj).1, by simp⟩

theorem cinv_reachable {fx : Bool} {N : ENet} {s : St} (h : Reachable fx N s) : CInv s := by
  induction h with
  | init => exact cinv_init
  | step _ hs ih => exact cinv_step ih hs

/-- under `CInv`, no producer of a step that is not terminated is CANCELLED -/
theorem cinv_no_cancelled_pred {N : ENet} {s : St} (hC : CInv s) {i : Nat} (hn : s.st i = none) :
    ∀ q ∈ N.preds i, s.st q ≠ some .cancelled := by
  intro q _ hq
  have := (hC q hq).1 i
  rw [hn] at this; cases this

/-- a step never ends CANCELLED by itself -/
theorem finish_not_cancelled {fx : Bool} {N : ENet} {s s' : St} {i : Nat} (hC : CInv s)
    (hs : step fx N s (.finish i) = some s') : s'.st i ≠ some .cancelled := by
  obtain ⟨_, hn, _, rfl⟩ := step_finish_some hs
  intro hc
  rw [setSt_st, if_pos rfl] at hc
  obtain ⟨p, hp, hpc⟩ := finishStatus_cancelled (Option.some.inj hc)
  exact cinv_no_cancelled_pred hC hn p hp hpc

/-- a step with a FAILED producer that terminates by itself ends FAILED -/
theorem finish_failed_of_pred {fx : Bool} {N : ENet} {s s' : St} {i p : Nat} (hC : CInv s)
    (hs : step fx N s (.finish i) = some s') (hp : p ∈ N.preds i) (hf : s.st p = some .failed) :
    s'.st i = some .failed := by
  obtain ⟨_, hn, _, rfl⟩ := step_finish_some hs
  rw [setSt_st, if_pos rfl, finishStatus_failed_of_pred (cinv_no_cancelled_pred hC hn) hp hf]

/-! ## A COMPLETED / SKIPPED step has only COMPLETED / SKIPPED producers -/

def GInv (N : ENet) (s : St) : Prop :=
  ∀ j x, s.st j = some x → x.bad = false → ∀ p ∈ N.preds j, ∃ y, s.st p = some y ∧ y.bad = false

theorem ginv_init (N : ENet) : GInv N St.init := by
  intro j x h; cases h

/-- `GInv` is kept by every update that keeps the statuses that are set and adds only bad ones -/
theorem ginv_of_stable {N : ENet} {s s' : St} (hG : GInv N s)
    (h1 : ∀ i x, s.st i = some x → s'.st i = some x)
    (h2 : ∀ j x, s'.st j = some x → x.bad = false → s.st j = some x) : GInv N s' := by
  intro j x hx hb p hp
  obtain ⟨y, hy, hyb⟩ := hG j x (h2 j x hx hb) hb p hp
  exact ⟨y, h1 p y hy, hyb⟩

theorem closeAll_good {t : St} {j : Nat} {x : Status} (h : t.closeAll.st j = some x) (hb : x.bad = false) :
    t.st j = some x := by
  cases hj : t.st j with
  | none =>
    rw [closeAll_st, hj] at h
    cases h; cases hb
  | some y =>
    rw [closeAll_st_of_some t j y hj] at h
    exact h

theorem ginv_step {fx : Bool} {N : ENet} {s s' : St} {a : Act} (hC : CInv s) (hG : GInv N s)
    (hs : step fx N s a = some s') : GInv N s' := by
  have h1 : ∀ i x, s.st i = some x → s'.st i = some x := fun _ _ hx => step_st_stable hs hx
  cases a with
  | finish i =>
    obtain ⟨_, hn, hpr, he⟩ := step_finish_some hs
    subst he
    intro j x hx hb p hp
    simp only [setSt_st] at hx
    by_cases e : j = i
    · subst e
      rw [if_pos rfl] at hx
      cases hx
      have hnc : ∀ q ∈ N.preds j, s.st q ≠ some .cancelled := by
        intro q _ hq
        have := (hC q hq).1 j
        rw [hn] at this; cases this
      cases hy : s.st p with
      | none => have := hpr p hp; rw [hy] at this; cases this
      | some y => exact ⟨y, h1 p y hy, finishStatus_good_preds hb hnc p hp y hy⟩
    · rw [if_neg e] at hx
      obtain ⟨y, hy, hyb⟩ := hG j x hx hb p hp
      exact ⟨y, h1 p y hy, hyb⟩
  | fail i =>
    obtain ⟨_, _, he⟩ := step_fail_some hs
    subst he
    apply ginv_of_stable hG h1
    intro j x hx hb
    simp only [setSt_st] at hx
    by_cases e : j = i
    · rw [if_pos e] at hx; cases hx; cases hb
    · rw [if_neg e] at hx; exact hx
  | read k =>
    obtain ⟨_, _, o, y, _, _, h5⟩ := step_read_some hs
    apply ginv_of_stable hG h1
    rcases h5 with ⟨_, _, rfl⟩ | ⟨_, _, rfl⟩ | ⟨_, _, rfl⟩ | ⟨_, _, rfl⟩
    · exact fun _ _ hx hb => closeAll_good hx hb
    · exact fun _ _ hx _ => hx
    · exact fun _ _ hx hb => closeAll_good hx hb
    · exact fun _ _ hx _ => hx
  | final =>
    obtain ⟨_, h5⟩ := step_final_some hs
    apply ginv_of_stable hG h1
    rcases h5 with ⟨_, rfl⟩ | ⟨_, rfl⟩ <;> exact fun _ _ hx _ => hx

theorem cginv_reachable {fx : Bool} {N : ENet} {s : St} (h : Reachable fx N s) : CInv s ∧ GInv N s := by
  induction h with
  | init => exact ⟨cinv_init, ginv_init N⟩
  | step _ hs ih => exact ⟨cinv_step ih.1 hs, ginv_step ih.1 ih.2 hs⟩

/-! ## Downstream steps -/

/-- `Upstream N i j`: step `j` consumes (directly or through other steps) what step `i` produces -/
inductive Upstream (N : ENet) : Nat → Nat → Prop
  | direct {p j : Nat} : p ∈ N.preds j → Upstream N p j
  | trans {i k j : Nat} : Upstream N i k → Upstream N k j → Upstream N i j

/-- under `GInv`, every step upstream of a COMPLETED / SKIPPED step is COMPLETED / SKIPPED -/
theorem ginv_upstream {N : ENet} {s : St} (hG : GInv N s) {i j : Nat} (hU : Upstream N i j) :
    ∀ x, s.st j = some x → x.bad = false → ∃ y, s.st i = some y ∧ y.bad = false := by
  induction hU with
  | direct hp => exact fun x hx hb => hG _ x hx hb _ hp
  | trans _ _ ih1 ih2 =>
    intro x hx hb
    obtain ⟨z, hz, hzb⟩ := ih2 x hx hb
    exact ih1 z hz hzb

/-- in a topologically ordered graph an upstream step has a smaller index -/
theorem upstream_lt {N : ENet} (hwf : N.WF) {i j : Nat} (hU : Upstream N i j) : j < N.n → i < j := by
  induction hU with
  | direct hp => exact fun hj => hwf.topo _ hj _ hp
  | trans _ _ ih1 ih2 =>
    intro hj
    have h2 := ih2 hj
    have h1 := ih1 (Nat.lt_trans h2 hj)
    exact Nat.lt_trans h1 h2

/-! ## Example net and runs -/

/-- the failing run of the diamond `0 → 1, 0 → 2, (1, 2) → 3`: step 1 raises, steps 2 and 3 terminate by themselves -/
def diamondFailRun : List Act := [.finish 0, .fail 1, .finish 2, .finish 3, .read 0, .final]

/-- a chain 0 → 1 → 2 in which steps 0 and 2 produce workflow outputs -/
def chain3 : ENet :=
  { n := 3
    ins := fun i => match i with
      | 0 => [none]
      | 1 => [some 0]
      | 2 => [some 1]
      | _ => []
    outs := [0, 2]
    emptyOut := fun _ => false
    dataIn := fun _ => false }

theorem chain3_wf : chain3.WF where
  topo := by
    intro i hi
    have : i = 0 ∨ i = 1 ∨ i = 2 := by simp only [chain3] at hi; omega
    rcases this with e | e | e <;> subst e <;> decide
  outsLt := by decide
  reach := by
    intro i hi
    have : i = 0 ∨ i = 1 ∨ i = 2 := by simp only [chain3] at hi; omega
    rcases this with e | e | e <;> subst e
    · exact Or.inl (by decide)
    · exact Or.inr ⟨2, by decide, by decide⟩
    · exact Or.inl (by decide)
  outsNe := by decide

end SFV.Exec
